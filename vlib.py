"""Shared machinery of the /verif checks: building the harness, running TLC as
model checker and as trace monitor, matching non-conformances against
known_findings.json, writing evidence and replay files.

Exit codes of a check: 0 held / only known findings; 1 with a VIOLATION line;
2 tool error (cargo, TLC, time-out of a tool) - never a verdict.
"""
import json, os, re, shutil, subprocess, sys, time, hashlib
from concurrent.futures import ThreadPoolExecutor

ROOT = os.path.dirname(os.path.abspath(__file__))
SPEC = os.path.join(ROOT, "spec")
HARNESS = os.path.join(ROOT, "harness")
EVID = os.path.join(ROOT, "evidence")
REPLAYS = os.path.join(EVID, "replays")
NCPU = min(16, os.cpu_count() or 4)
TLA_JAR = "/opt/veriftools/tla/tla2tools.jar"


class ToolError(Exception):
    pass


def log(*a):
    print(*a, file=sys.stderr, flush=True)


def seed():
    try:
        return int(os.environ.get("VERIF_SEED", "0"))
    except ValueError:
        return 0


class Work:
    """Per-invocation scratch directory under /verif/work, removed on exit."""

    def __init__(self, tag):
        self.dir = os.path.join(ROOT, "work", "%s-%d" % (tag, os.getpid()))
        shutil.rmtree(self.dir, ignore_errors=True)
        os.makedirs(self.dir)

    def path(self, *p):
        return os.path.join(self.dir, *p)

    def close(self):
        if not os.environ.get("VERIF_KEEP"):
            shutil.rmtree(self.dir, ignore_errors=True)


def cargo_env():
    env = dict(os.environ)
    env["CARGO_NET_OFFLINE"] = "true"
    env.pop("RUSTFLAGS", None)
    return env


def build_harness(profile="dev"):
    """Builds gv against /repo's current working tree (path dependency) with hooks on."""
    lock = os.path.join(HARNESS, "Cargo.lock")
    if not os.path.exists(lock):
        shutil.copy("/repo/Cargo.lock", lock)
    cmd = ["cargo", "build", "--offline", "--quiet"]
    if profile == "release":
        cmd.append("--release")
    t = time.time()
    # another check may be building at the same time: cargo serialises on its own lock
    p = subprocess.run(cmd, cwd=HARNESS, env=cargo_env(), stdout=subprocess.PIPE, stderr=subprocess.STDOUT, text=True)
    if p.returncode != 0:
        log(p.stdout[-4000:])
        raise ToolError("cargo build failed (the tree does not compile with hooks enabled)")
    log("harness built (%s) in %.1fs" % (profile, time.time() - t))
    return os.path.join(HARNESS, "target", "release" if profile == "release" else "debug", "gv")


def run_gv(gv, args, timeout=3600, stdin=None):
    p = subprocess.run([gv] + [str(a) for a in args], stdout=subprocess.PIPE, stderr=subprocess.PIPE, text=True,
                       timeout=timeout, input=stdin)
    if p.returncode != 0:
        raise ToolError("gv %s exited %d: %s" % (args[0], p.returncode, p.stderr[-2000:]))
    out = p.stdout.strip().splitlines()
    return json.loads(out[-1]) if out else {}


def tlc_env(trace=None, extra=None):
    env = dict(os.environ)
    env["JAVA_TOOL_OPTIONS"] = "-Xss1g -XX:ParallelGCThreads=2 -XX:+UseSerialGC"
    if trace:
        env["TRACE"] = trace
    if extra:
        env.update(extra)
    return env


STATS_RE = re.compile(r"(\d+) states generated, (\d+) distinct states found, (\d+) states left on queue")


def run_tlc(module, cfg, metadir, workers=1, trace=None, timeout=3000, extra_env=None, heap="3g", coverage=False,
            simulate=None, depth=None, seedv=None):
    """Runs TLC; returns dict(out=text, generated, distinct, ok)."""
    cmd = ["java", "-Xmx" + heap, "-cp", TLA_JAR + ":/opt/veriftools/tla/CommunityModules-deps.jar",
           "tlc2.TLC", "-workers", str(workers), "-metadir", metadir, "-cleanup", "-noGenerateSpecTE",
           "-config", cfg]
    if coverage:
        cmd += ["-coverage", "1"]
    if simulate:
        cmd += ["-simulate", "num=%d" % simulate]
        if depth:
            cmd += ["-depth", str(depth)]
    if seedv is not None:
        cmd += ["-seed", str(seedv)]
    cmd.append(module)
    env = tlc_env(trace, extra_env)
    if workers == 1:
        # many single-worker JVMs run side by side: keep each one small
        env["JAVA_TOOL_OPTIONS"] = "-Xss512m -XX:+UseSerialGC -XX:CICompilerCount=2"
    else:
        env["JAVA_TOOL_OPTIONS"] = "-Xss512m -XX:ParallelGCThreads=4"
    # TLC's RecordValue normalisation is not thread-safe: with several workers a record whose field-name array is
    # being sorted by one thread can momentarily lose a field for another ("Attempted to select nonexistent field").
    # It is a flake of the tool at start-up, independent of the specification and of the code under test, so such a
    # run is repeated (a real specification error reproduces on every attempt).
    for attempt in range(4):
        try:
            p = subprocess.run(cmd, cwd=SPEC, env=env, stdout=subprocess.PIPE, stderr=subprocess.STDOUT, text=True, timeout=timeout)
        except subprocess.TimeoutExpired:
            raise ToolError("TLC timed out on %s" % module)
        out = p.stdout
        shutil.rmtree(metadir, ignore_errors=True)
        if workers > 1 and "TLC threw an unexpected exception" in out:
            log("TLC record-normalisation race on %s (attempt %d), repeating" % (module, attempt + 1))
            continue
        break
    m = None
    for m in STATS_RE.finditer(out):
        pass
    res = {"out": out, "rc": p.returncode, "generated": int(m.group(1)) if m else 0, "distinct": int(m.group(2)) if m else 0}
    return res


def tlc_classpath_ok():
    return os.path.exists(TLA_JAR)


def tlc_failed(res):
    """True when TLC itself reported an error (not a monitor NONCONF)."""
    out = res["out"]
    if "Model checking completed. No error has been found." in out or "Finished in" in out and res["rc"] == 0:
        return False
    return True


def tlc_error_text(res):
    lines = [l for l in res["out"].splitlines() if not l.startswith(("Parsing", "Semantic", "Linting", "Picked up"))]
    # the message of the first error (not the behaviour that follows it), the deepest expression positions, the summary
    head, keep = [], False
    for l in lines:
        if l.startswith("Error:"):
            keep = True
        if keep and (l.startswith("State ") or "The behavior up to this point" in l):
            break
        if keep:
            head.append(l)
    pos = [l for l in lines if re.match(r"^\d+\. Line", l)]
    return "\n".join(head[:25] + ["..."] + pos[-12:] + ["..."] + lines[-6:])


NONCONF_RE = re.compile(r'^"?NONCONF (\d+) (\w+) \{(.*?)\}"?\s*$')


def parse_nonconf(out):
    """-> list of (event id, group, [check names])"""
    r = []
    for line in out.splitlines():
        m = NONCONF_RE.match(line.strip())
        if m:
            names = [x.strip().strip('\\"') for x in m.group(3).split(",") if x.strip()]
            r.append((int(m.group(1)), m.group(2), names))
    return r


def monitor_shards(module, traces, workdir, timeout=3000, heap="3g"):
    """Runs the monitor `module` over every trace file in parallel.
    Returns (results per trace, total distinct states, total generated)."""
    def one(i_t):
        i, t = i_t
        res = run_tlc(module + ".tla", module + ".cfg", os.path.join(workdir, "meta%d" % i), trace=t, timeout=timeout, heap=heap)
        if tlc_failed(res) and "INCOMPLETE" not in res["out"]:
            raise ToolError("TLC failed on %s:\n%s" % (t, tlc_error_text(res)))
        if "INCOMPLETE" in res["out"] or "Postcondition" in res["out"] and "violated" in res["out"]:
            raise ToolError("monitor did not consume the whole trace %s:\n%s" % (t, tlc_error_text(res)))
        return res
    with ThreadPoolExecutor(max_workers=NCPU) as ex:
        results = list(ex.map(one, enumerate(traces)))
    return results, sum(r["distinct"] for r in results), sum(r["generated"] for r in results)


def read_events(trace, ids):
    """Returns {id: event} for the requested line numbers (plus nothing else)."""
    want = set(ids)
    got = {}
    if not want:
        return got
    mx = max(want)
    with open(trace) as f:
        for n, line in enumerate(f, 1):
            if n in want:
                got[n] = json.loads(line)
            if n >= mx:
                break
    return got


def path_to(trace, eid):
    """The chain of events from the root to event `eid` (inclusive)."""
    idx = {}
    with open(trace) as f:
        lines = f.readlines()
    chain = []
    cur = eid
    while cur and cur > 0:
        e = json.loads(lines[cur - 1])
        chain.append(e)
        cur = e.get("parent", 0)
    chain.reverse()
    return chain


# --------------------------------------------------------------------------
# known findings

def load_known():
    p = os.path.join(ROOT, "known_findings.json")
    if not os.path.exists(p):
        return []
    return json.load(open(p)).get("findings", [])


def _helpers():
    def specs(e):
        return (e.get("post") or {}).get("specs") or e.get("specs") or {}

    def edges(e):
        return (e.get("post") or {}).get("edges") or []

    def has_parallel(e):
        es = [(x[0], x[1]) for x in edges(e)]
        return len(es) != len(set(es))

    def has_loop(e):
        return any(x[0] == x[1] for x in edges(e))

    def has_nan(e):
        return any(x[2] == -1 for x in edges(e))

    return {"specs": specs, "edges": edges, "has_parallel": has_parallel, "has_loop": has_loop, "has_nan": has_nan,
            "len": len, "any": any, "all": all, "set": set, "min": min, "max": max, "sum": sum, "abs": abs}


def match_known(known, prop, group, check, ev):
    """Returns the open known finding that explains this non-conformance, or None."""
    for k in known:
        if k.get("status") != "open" or k.get("property") != prop:
            continue
        if k.get("group") not in (None, group) or k.get("check") not in (None, check):
            continue
        where = k.get("where", "True")
        try:
            env = _helpers()
            env["e"] = ev
            if eval(where, {"__builtins__": {}}, env):
                return k
        except Exception:
            continue
    return None


# --------------------------------------------------------------------------
# evidence, replays, verdict

def write_replay(prop, name, obj):
    os.makedirs(REPLAYS, exist_ok=True)
    p = os.path.join(REPLAYS, "%s-%s.json" % (prop, name))
    with open(p, "w") as f:
        json.dump(obj, f, indent=1)
    return p


def write_evidence(prop, tier, level, coverage, wall, violations, assumptions, extra=None):
    os.makedirs(EVID, exist_ok=True)
    ev = {"property_id": prop, "tier": tier, "seed": seed(), "level": level, "coverage": coverage,
          "assumptions": assumptions, "wall_s": round(wall, 2), "violations": violations}
    if extra:
        ev.update(extra)
    with open(os.path.join(EVID, prop + ".json"), "w") as f:
        json.dump(ev, f, indent=1)


class Verdict:
    """Collects violations / known findings of one check run."""

    def __init__(self, prop):
        self.prop = prop
        self.violations = []   # (what, replay path)
        self.known = {}        # finding id -> count
        self.known_desc = {}
        self.kf = load_known()
        self.by_key = {}
        self.first_replay = {}

    def nonconf(self, group, check, ev, what, replay_obj):
        """Registers one non-conformance.  At most 3 replay files are written per (group, check)."""
        k = match_known(self.kf, self.prop, group, check, ev)
        if k:
            self.known[k["id"]] = self.known.get(k["id"], 0) + 1
            self.known_desc[k["id"]] = k["what"]
            return False
        key = (group, check)
        n = self.by_key.get(key, 0)
        self.by_key[key] = n + 1
        if n < 3:
            name = hashlib.sha1(json.dumps(replay_obj, sort_keys=True, default=str).encode()).hexdigest()[:10]
            path = write_replay(self.prop, name, replay_obj() if callable(replay_obj) else replay_obj)
            self.first_replay.setdefault(key, path)
            self.violations.append((what, path))
        else:
            self.violations.append((None, None))
        return True

    def wants_replay(self, group, check, ev):
        """True when a replay object is still needed for this (group, check)."""
        if match_known(self.kf, self.prop, group, check, ev):
            return False
        return self.by_key.get((group, check), 0) < 3

    def finish(self):
        for kid, n in sorted(self.known.items()):
            print("KNOWN-FINDING: property=%s %s [%s, %d occurrence(s) in this run]" % (self.prop, self.known_desc[kid], kid, n))
        for what, path in self.violations:
            if what is not None:
                print("VIOLATION property=%s replay=%s %s" % (self.prop, path, what))
        for key, n in sorted(self.by_key.items()):
            if n > 3:
                print("(%d further violations of %s by %s/%s; first replay %s)" % (n - 3, self.prop, key[0], key[1], self.first_replay[key]))
        sys.stdout.flush()
        return 1 if self.violations else 0
