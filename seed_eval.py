#!/usr/bin/env python3
"""seed_eval.py <seed id> <property> [more properties...]
Applies /verif/seeded/<seed id>/patch.diff to /repo, runs the quick checks of the given
properties, reverts /repo, and records in meta.json which checks reported a violation."""
import json, os, subprocess, sys, time
sid, props = sys.argv[1], sys.argv[2:]
d = os.path.join("/verif/seeded", sid)
meta_p = os.path.join(d, "meta.json")
meta = json.load(open(meta_p)) if os.path.exists(meta_p) else {}
st = subprocess.run(["git", "-C", "/repo", "status", "--porcelain"], capture_output=True, text=True).stdout.strip()
assert st == "", "/repo is not clean: " + st
subprocess.run(["git", "-C", "/repo", "apply", os.path.join(d, "patch.diff")], check=True)
res = meta.get("checks", {})
try:
    for p in props:
        t = time.time()
        r = subprocess.run(["./check", p, "--tier", "quick"], cwd="/verif", capture_output=True, text=True)
        lines = [l for l in r.stdout.splitlines() if l.startswith(("VIOLATION", "KNOWN-FINDING", "(")) ]
        res[p] = {"exit": r.returncode, "detected": r.returncode == 1, "wall_s": round(time.time() - t),
                  "first_lines": [l[:300] for l in lines[:4]], "stderr_tail": r.stderr.strip().splitlines()[-2:] if r.returncode == 2 else []}
        print(sid, p, "exit", r.returncode, "|", (lines[0][:200] if lines else ""))
finally:
    subprocess.run(["git", "-C", "/repo", "checkout", "--", "."], check=True)
    subprocess.run(["git", "-C", "/repo", "clean", "-fdq", "tests"], check=False)
meta["checks"] = res
json.dump(meta, open(meta_p, "w"), indent=1)
