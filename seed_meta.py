#!/usr/bin/env python3
"""seed_meta.py <seed id> <needs-to-manifest text>: completes seeded/<id>/meta.json"""
import json, sys
k, needs = sys.argv[1], sys.argv[2]
p = '/verif/seeded/%s/meta.json' % k
try:
    m = json.load(open(p))
except FileNotFoundError:
    m = {}
m.update({"seed": k, "breaks_property": k[:3], "needs_to_manifest": needs,
          "origin": "written by an independent sub-agent that saw only the property text and a scratch worktree",
          "confirmed": "seed_verify.sh in a scratch worktree: with the change only the 4 baseline failures plus the demonstration fail; the demonstration passes without the change",
          "ran": "./seed_eval.py %s %s  (git -C /repo apply patch.diff; ./check %s --tier quick; git -C /repo checkout -- .)" % (k, k[:3], k[:3])})
json.dump(m, open(p, 'w'), indent=1)
