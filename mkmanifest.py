#!/usr/bin/env python3
"""Regenerates MANIFEST.json from the table below (kept in one place so the manifest always validates)."""
import json, os

ROOT = os.path.dirname(os.path.abspath(__file__))

TB = ["TLC 1.8.0 + CommunityModules Json/IOUtils", "harness projection functions (harness/src)", "small-scope: names i32, integer weights"]

MUT_NOTE = "Bounded: 2-5 names, weights {NaN,1,2,3,5}, attribute tags; projection through the public API (+ the read-only snapshot hook). Trusted: TLC, Json module, harness projection/canonicalisation."
ALG_NOTE = "Small scope: all graphs of the enumerated families (<= 4-5 nodes) plus random graphs of all 8 kinds; floats are mapped to small rationals (absolute tolerance 4e-11, denominators <= 100000) before the exact comparison. Trusted: TLC, Json module, harness canonicalisation, rational reconstruction."

CHECKS = {
    "C01": dict(
        level="model_checking",
        technique="TLA+ state machine (GraphMachine) model-checked by TLC for all 96 GraphSpecs; recorded call forests and every add_node/add_edge call executed by the repository's own test suite (mutation hook) validated by a TLC trace monitor; TLC random walks replayed into the library",
        text="TLC exhausts the abstract mutation machine within small bounds under all 96 GraphSpecs (well-formedness, rejected-changes-nothing, append-only names); every recorded real call (exhaustive operation sequences to depth 2-3, random histories with batch forms) is checked step by step against AddEdgeRule/AddNodeRule by TLC running MonitorMut; model walks are replayed into the library and compared state by state; the repository's test suite is run with the mutation hook and each of its recorded calls is validated the same way.",
        note=MUT_NOTE, design="4/C01"),
    "C02": dict(
        level="model_checking",
        technique="TLC model checking of the implementation-shaped store machine (StoreMachine) + TLC trace monitor comparing the full read-API table and the hook snapshot of the private indexes (harness forests and the repository's own test executions) with GraphQuery/GraphStore",
        text="TLC checks for all 96 GraphSpecs that the twelve indexes, updated by the rules of creation.rs, always describe the abstract state; on recorded executions every state of the depth-2 forest and of random histories is asked every read API for every ordered pair / node / subset incl. an absent name, and TLC compares each answer and each private index with the specification.",
        note=MUT_NOTE, design="4/C02"),
    "C03": dict(
        level="model_checking",
        technique="TLC model checking of StoreMachine (InvAdjMatches) + TLC trace monitor on snapshots of successors_vec/predecessors_vec (harness forests and the repository's own test executions) + weighted algorithm answers judged against Paths/Centrality evaluated on get_all_edges() alone",
        text="TLC shows on the store machine that the traversal lists hold exactly the stored neighbours with the least stored weight under every duplicate policy (and finds the counterexample for the rule as pinned); recorded snapshots after every mutation and weighted Dijkstra/betweenness/closeness on duplicate-insertion histories are validated by the monitor.",
        note=MUT_NOTE, design="4/C03"),
    "C04": dict(
        level="model_checking",
        technique="TLA+ state machine of the Dijkstra search loop (DijkstraMech) model-checked against the TLA+ definitions (Paths: relaxation distance, tight-edge DAG path sets), themselves model-checked against brute force; TLC-enumerated graph families replayed into the library; answers judged by a TLC trace monitor",
        text="Every graph of the TLC-enumerated families and random graphs of all 8 kinds: single_source from every source, all_pairs, multi_source (all-paths, first-only, distance-only; hop-count and weighted incl. zero weights) are compared by TLC with Dist/ShortestPaths: reported set = reachable set, distances equal, every path valid, path set complete and duplicate-free for positive weights.",
        note=ALG_NOTE, design="4/C04"),
    "C05": dict(
        level="model_checking",
        technique="TLA+ state machine of the Brandes search and accumulation (BrandesMech) model-checked against the exact rational betweenness defined in TLA+ over the path sets, for every heap pop order; TLC-enumerated families + random graphs replayed; TLC trace monitor",
        text="betweenness_centrality (weighted x normalized) of every enumerated / random graph equals the exact rational definition (sum over ordered pairs of the fraction of shortest paths through v, halving / (n-1)(n-2) conventions); on graphs with 2^64 and more shortest paths between two nodes (beyond the exact oracle) the sum identity with the distances and well-formedness of the result are checked instead.",
        note=ALG_NOTE, design="4/C05"),
    "C06": dict(
        level="model_checking",
        technique="exact rational closeness defined in TLA+ over Dist; TLC-enumerated families + random graphs replayed; TLC trace monitor",
        text="closeness_centrality (weighted x wf_improved) of every enumerated / random graph equals (r-1)/sum of incoming distances with the Wasserman-Faust factor, 0 when nothing else reaches the node.",
        note=ALG_NOTE, design="4/C06"),
    "C08": dict(
        level="model_checking",
        technique="nondeterministic TLA+ contract (Paths!SSOK: options restrict, never change) evaluated by a TLC trace monitor over the full option grid; symmetry and triangle inequality model-checked",
        text="For every source of every enumerated / random graph the whole grid target x cutoff (below, at, between and above every distinct distance) x first_only x with_paths, plus all_pairs / multi_source variants and get_all_shortest_paths_involving, is judged by the contract; all entry points are compared with the same specification value, hence with one another; on weights that are not exactly representable the cutoff / target answers are compared bit for bit with the library's own unrestricted answer (the relation the property states).",
        note=ALG_NOTE, design="4/C08"),
    "C09": dict(
        level="model_checking",
        technique="TLC model checking of the counting definitions (handshake identities, matrix facts) on the mutation machine + TLC trace monitor on recorded query tables",
        text="TLC checks the identities on every reachable state for all 96 GraphSpecs; every recorded count, degree, weighted degree, density, degree centrality and adjacency-matrix answer is compared with its definition and the identities are re-evaluated on the library's own numbers.",
        note=MUT_NOTE, design="4/C09"),
    "C10": dict(
        level="model_checking",
        technique="components defined in TLA+ as quotients by reachability; TLC-enumerated families + random graphs replayed (repeated calls); TLC trace monitor",
        text="connected / weak / strong components, component counts, node_connected_component, BFS from every node and bfs_equal_size_partitions for every k are judged against the reachability definitions (partition, right relation, first element, part sizes).",
        note=ALG_NOTE, design="4/C10"),
    "C07": dict(
        level="model_checking",
        technique="TLA+ model of the par_iter/map/collect/combine shape (ParMap) model-checked over all interleavings and, for any number of workers and items, proved with TLAPS (prefix-of-serial, barrier); bit-for-bit comparison of parallel vs serial answers under installed pools of every size; recorded schedules validated by TLC as ParMap behaviours",
        text="TLC explores every interleaving of k workers over n items and shows that the sequence of combine steps is always the serial one (and refutes the combine-on-finish variant). On the implementation, each of the five parallel functions is run repeatedly inside ThreadPool::install for pool sizes 2..16 on graphs with more than 20 nodes (tie-heavy, and with non-dyadic weights) and compared bit for bit with the pool-of-1 answer; 8 threads sharing one graph likewise; the hook trace of the executed schedule is replayed through ParMap's actions by the monitor.",
        note="Exhaustive for the model only: rayon's real schedules are sampled (pool sizes x repetitions), tied to the model by the hook traces. Trusted: bitwise comparison in the harness, TLC.",
        design="4/C07"),
    "C14": dict(
        level="model_checking",
        technique="TLA+ writer/reader over abstract XML tokens, round trip model-checked on the mutation machine for all 96 GraphSpecs; recorded write-then-read round trips over awkward names / weights judged by a TLC trace monitor on interned tokens",
        text="Structural round trip Read(Write(g)) = g is checked by TLC on every reachable state; the lexical part (escaping, float printing) is exercised by instantiating the opaque tokens with a table of awkward names and weights and random Unicode / random f64 bit patterns, string and file variants, and comparing token identities in the monitor.",
        note="The lexical part is sampling over a table and random draws, not a decision for all Unicode x 2^64. Trusted: token interning in the harness, TLC.",
        design="4/C14, 6"),
    "C16": dict(
        level="model_checking",
        technique="TLA+ state machine of the geometric-skipping loops with nondeterministic skips, model-checked (validity, order, reachability lemma, slot counter); seeded runs judged by a TLC monitor holding the structural rules and statistical thresholds; the library's own skip sequences replayed through the model",
        text="TLC shows for small n that every skip sequence yields valid, strictly increasing pairs and that every later pair can be emitted next (so every subset is reachable), and refutes the rule as pinned. Real runs for n up to 40/300, six probabilities, both kinds and 400/4000 seeds are judged structurally and statistically (mean within p*pairs/(n-1) + 6 sigma; per-pair frequencies for small n); invalid p must give InvalidArgument; complete_graph and karate_club_graph are compared with their definitions.",
        note="The distributional claim is a statistical test (false-alarm probability < 1e-8 per configuration) with z-scores computed in f64 by the harness; thresholds are held in the specification.",
        design="4/C16, 6"),
    "C19": dict(
        level="model_checking",
        technique="TLA+ reader contract over an abstract token alphabet; TLC enumerates every token document of bounded length, each is rendered and read in a watchdog child process and judged by a TLC monitor; plus every single-point corruption of well-formed documents",
        text="All documents of up to 2/3 content units over 123 units x header variants (missing / duplicated / undecodable attributes, non-numeric weights, stray data, unknown elements, mismatched end tags, end of input inside a tag / an open edge / weight or other data / a comment / CDATA) must yield Ok or Err, with Err where an element cannot be represented and, for Ok, exactly the node and edge elements under the C01 rules with the declared directedness; every deletion / duplication / truncation / bit flip of generated documents must yield Ok or Err.",
        note="Bounded document length; renderer from tokens to text is trusted; panics are observed through catch_unwind, aborts and hangs through the child-process watchdog.",
        design="4/C19"),
    "C11": dict(
        level="model_checking",
        technique="exact rational definitions of triangles / clustering (undirected, Fagiolo directed, weighted geometric-mean with perfect-cube weights) / transitivity / generalized degree / square clustering in TLA+; TLC-enumerated families + random graphs replayed for the whole graph and every node subset; TLC trace monitor",
        text="Every function of the clustering module on every enumerated / random single-edge graph (directed and undirected, weighted and not, self-loops, isolated and degree-one nodes), for node_names = None and for every non-empty subset, is compared with the exact definition; WrongMethod guards and the [0,1] range are checked.",
        note=ALG_NOTE + " Weighted forms use weights that are perfect cubes so that cube roots are rational.", design="4/C11"),
    "C12": dict(
        level="model_checking",
        technique="IsPartition and exact rational Newman modularity defined in TLA+; all families of <= 3 subsets (nodes + a foreign name) on TLC-enumerated graphs, random and perturbed partitions; TLC trace monitor",
        text="is_partition and modularity (weighted / unweighted, resolutions 1, 1/2, 2; directed and undirected; parallel edges and self-loops) are compared with the definitions for every family, including overlap-plus-omission families whose sizes cancel and families with repeated sets.",
        note=ALG_NOTE, design="4/C12"),
    "C13": dict(
        level="model_checking",
        technique="TLA+ state machine of the local-move phase with exact integer gains (LouvainMech) model-checked for termination (lexicographic potential) with the pinned rule refuted; TLA+ contract of the Louvain result (nested partitions into non-empty sets, exact modularity monotonicity) judged by a TLC trace monitor; every call runs in a watchdog child process so that non-termination is an observed outcome",
        text="louvain_partitions / louvain_communities for several seeds, resolutions and thresholds on every enumerated graph and on random graphs of all kinds must return within the deadline a non-empty list of levels, each a partition into non-empty sets, each coarsening the previous one, with exact rational modularity non-decreasing on single-edge graphs and the first level at least as good as singletons.",
        note="Termination is observed (10 s deadline for calls that normally take < 5 ms), not proved; graphs up to 9 / 14 nodes. Trusted: watchdog, canonicalisation, TLC.", design="4/C13"),
    "C17": dict(
        level="exploration",
        technique="repeated execution (in process, fresh processes, rayon pool sizes) of seeded calls on tie-heavy graphs; all results of one argument tuple must be identical (TLC monitor MonitorRepro)",
        text="Each argument tuple of louvain_partitions / louvain_communities / fast_gnp_random_graph is evaluated 30/300 times in one process, in 5/20 fresh processes and under pools of 1, 4 and 16 threads (generator: 1, 2, 3, 8 threads, n up to 1500) on paths, cycles, complete graphs, stars, barbell, grid and cube graphs (directed and undirected) and random graphs; non-randomised suites are run three times per graph, and on graphs above the parallel threshold under pools of 1, 2 and 8 threads.",
        note="Hash-order dependence shows only with some probability per call; it is sampled by repetition, not enumerated. The specification part is the equality requirement.", design="4/C17"),
    "C18": dict(
        level="other",
        technique="TLA+ contract (thresholds, residual bound K = 2n(1+D) derived in the module, max_iter monotonicity protocol) applied by a TLC trace monitor to integer-encoded floating-point quantities computed by the harness",
        text="For max_iter in {1,2,3,5,20,100,1000} x tolerance in {1e-12..1e-2} x weighted/unweighted on enumerated and random single-edge graphs: Ok results have one entry per node, are non-negative, have unit Euclidean norm (1e-9) and satisfy the fixed-point residual bound of the documented left-multiplication step; outcomes are monotone in max_iter; errors are PowerIterationFailedConvergence; Ok is returned exactly from the iteration at which the documented iteration (repeated by the harness) first moves by less than n x tolerance (never a non-converged vector).",
        note="TLC has no reals or square roots: norm and residual are evaluated in f64 by the harness (trusted projection); only thresholds, K and the protocol are decided by the specification.", design="4/C18, 6"),
    "C20": dict(
        level="model_checking",
        technique="TLA+ table of allowed outcome classes per public function x graph kind x argument shape (Api!Allowed), applied by a TLC trace monitor to calls on TLC-enumerated degenerate graphs in a dev (overflow-checked) and a release build",
        text="All public queries and algorithms are called on every enumerated graph with <= 3/4 nodes of all 8 kinds and on random ones, with every existing name and one absent name; the set of outcome classes per (function, shape) must avoid Panic / Hang / Abort and lie in the allowed set (WrongMethod / NodeNotFound / None through the function's own channel).",
        note="Graphs up to 4-5 nodes; panics observed through catch_unwind, hangs through the watchdog (Louvain). Trusted: the call list in harness/src/api.rs, TLC.", design="4/C20"),
    "C15": dict(
        level="model_checking",
        technique="TLC model checking of Subgraph/Reverse/Reweight/Collapse on the mutation machine + TLC trace monitor on derive events from every state of recorded forests",
        text="TLC checks well-formedness, involution, nesting and weight preservation of the derived graphs on every reachable state for all 96 GraphSpecs; every recorded derive call (all subsets incl. an absent name) is compared with the specification, the source is re-projected and must be unchanged, and the derived graph's indexes and read-API table are validated.",
        note=MUT_NOTE, design="4/C15"),
}

PENDING = {
}

ALL = ["C%02d" % i for i in range(1, 21)]


def main():
    checks = []
    for pid in ALL:
        if pid not in CHECKS:
            continue
        c = CHECKS[pid]
        checks.append({
            "property_id": pid,
            "quick_cmd": "./check %s --tier quick" % pid,
            "thorough_cmd": "./check %s --tier thorough" % pid,
            "evidence_file": "/verif/evidence/%s.json" % pid,
            "replay_cmd_template": "./check %s --replay {path}" % pid,
            "engine": "tla-monitor",
            "level_claimed": {"category": c["level"], "text": c["text"], "design_ref": c["design"]},
            "level_note": c["note"],
            "technique": c["technique"],
        })
    na = [{"property_id": p, "reason": PENDING.get(p, "check not built yet in this round; planned per DESIGN.md section 4")}
          for p in ALL if p not in CHECKS]
    m = {
        "version": 1,
        "setup_cmd": "cd /verif/harness && (test -f Cargo.lock || cp /repo/Cargo.lock Cargo.lock) && CARGO_NET_OFFLINE=true cargo build --offline && CARGO_NET_OFFLINE=true cargo build --offline --release && cd /repo && RUSTFLAGS='--cfg graphrs_verif' RUSTDOCFLAGS='--cfg graphrs_verif' CARGO_TARGET_DIR=/verif/harness/target-rt CARGO_NET_OFFLINE=true cargo test --offline --workspace --no-run",
        "hooks": {
            "guard": "--cfg graphrs_verif",
            "enable": "harness/.cargo/config.toml passes rustflags --cfg graphrs_verif to every crate of the harness build (path dependency on /repo); the mutation-trace hook additionally needs GRAPHRS_VERIF_TRACE=<path prefix> in the environment (rtrace.py runs /repo's test suite that way with RUSTFLAGS='--cfg graphrs_verif' and its own target directory)",
            "baseline_off_cmd": "cd /repo && cargo test --workspace --no-fail-fast --offline",
            "source_commits": ["6fdc981", "8590283", "7499450"],
            "add_only": True,
        },
        "engines": [
            {"name": "tla-monitor", "path": "/verif/spec", "serves_properties": sorted(CHECKS),
             "kind_free_text": "TLA+ specification checked by TLC (model checking of the design, trace monitoring of recorded executions, generation of behaviours replayed into the library); Rust harness `gv` in /verif/harness; python driver /verif/check"},
        ],
        "checks": checks,
        "not_applicable": na,
        "notes": "See DESIGN.md. Exit codes: 0 held / known findings only, 1 VIOLATION, 2 tool error.",
    }
    with open(os.path.join(ROOT, "MANIFEST.json"), "w") as f:
        json.dump(m, f, indent=1)


if __name__ == "__main__":
    main()
