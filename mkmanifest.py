#!/usr/bin/env python3
"""Regenerates MANIFEST.json from the table below (kept in one place so the manifest always validates)."""
import json, os

ROOT = os.path.dirname(os.path.abspath(__file__))

TB = ["TLC 1.8.0 + CommunityModules Json/IOUtils", "harness projection functions (harness/src)", "small-scope: names i32, integer weights"]

CHECKS = {
    "C01": dict(
        level="model_checking",
        technique="TLA+ state machine (GraphMachine) model-checked by TLC for all 96 GraphSpecs; recorded call forests validated by a TLC trace monitor; TLC random walks replayed into the library",
        text="TLC exhausts the abstract mutation machine within small bounds under all 96 GraphSpecs (well-formedness, rejected-changes-nothing, append-only names); every recorded real call (exhaustive operation sequences to depth 2-3, random histories with batch forms) is checked step by step against AddEdgeRule/AddNodeRule by TLC running MonitorMut; model walks are replayed into the library and compared state by state.",
        note="Bounded: 3-5 names, weights {NaN,1,2,3,5}, attribute tags; the projection goes through get_all_nodes/get_all_edges. Trusted: TLC, Json module, harness projection.",
        design="4/C01"),
}

PENDING = {
}

ALL = ["C%02d" % i for i in range(1, 21)]


def main():
    checks = []
    for pid in ALL:
        if pid not in CHECKS:
            continue
        c = CHECKS[pid]
        checks.append({
            "property_id": pid,
            "quick_cmd": "./check %s --tier quick" % pid,
            "thorough_cmd": "./check %s --tier thorough" % pid,
            "evidence_file": "/verif/evidence/%s.json" % pid,
            "replay_cmd_template": "./check %s --replay {path}" % pid,
            "engine": "tla-monitor",
            "level_claimed": {"category": c["level"], "text": c["text"], "design_ref": c["design"]},
            "level_note": c["note"],
            "technique": c["technique"],
        })
    na = [{"property_id": p, "reason": PENDING.get(p, "check not built yet in this round; planned per DESIGN.md section 4")}
          for p in ALL if p not in CHECKS]
    m = {
        "version": 1,
        "setup_cmd": "cd /verif/harness && (test -f Cargo.lock || cp /repo/Cargo.lock Cargo.lock) && CARGO_NET_OFFLINE=true cargo build --offline && CARGO_NET_OFFLINE=true cargo build --offline --release",
        "hooks": {
            "guard": "--cfg graphrs_verif",
            "enable": "harness/.cargo/config.toml passes rustflags --cfg graphrs_verif to every crate of the harness build (path dependency on /repo)",
            "baseline_off_cmd": "cd /repo && cargo test --workspace --no-fail-fast --offline",
            "source_commits": ["6fdc981"],
            "add_only": True,
        },
        "engines": [
            {"name": "tla-monitor", "path": "/verif/spec", "serves_properties": sorted(CHECKS),
             "kind_free_text": "TLA+ specification checked by TLC (model checking of the design, trace monitoring of recorded executions, generation of behaviours replayed into the library); Rust harness `gv` in /verif/harness; python driver /verif/check"},
        ],
        "checks": checks,
        "not_applicable": na,
        "notes": "See DESIGN.md. Exit codes: 0 held / known findings only, 1 VIOLATION, 2 tool error.",
    }
    with open(os.path.join(ROOT, "MANIFEST.json"), "w") as f:
        json.dump(m, f, indent=1)


if __name__ == "__main__":
    main()
