"""C16: generators.  TLC model-checks the geometric-skipping scheme (spec/Gnp.tla);
the harness records seeded runs of the real generators; TLC (spec/MonitorGen.tla)
judges structure, argument checking, the statistics (thresholds held in the
specification) and replays the library's own skip sequences through the model."""
import json, os, time
from vlib import *

DECIDING = {"gnp", "gnp_extreme", "gnp_arg", "complete", "karate"}


def run_c16(tier, replay=None):
    prop = "C16"
    t0 = time.time()
    work = Work(prop)
    verdict = Verdict(prop)
    try:
        gv = build_harness()
        if replay:
            r = json.load(open(replay))
            with open(work.path("ev.ndjson"), "w") as f:
                pass
            # a replay re-runs the generator suite for the recorded parameters only
            run_gv(gv, ["gens", "--out", work.path("g.ndjson"), "--nmax", r.get("nmax", 40), "--seeds", r.get("seeds", 400),
                        "--thorough", r.get("thorough", 0), "--seed", r.get("seed", 0)])
            results, _, _ = monitor_shards("MonitorGen", [work.path("g.ndjson")], work.dir)
            ncs = [x for x in parse_nonconf(results[0]["out"]) if x[1] in DECIDING and set(x[2]) & set(r.get("failed_checks", x[2]))]
            if ncs:
                print("VIOLATION property=%s replay=%s %s" % (prop, replay, ncs[:5]))
                return 1
            print("replay: conforms")
            return 0
        mcs = []
        cfgs = ["Gnp_d.cfg", "Gnp_u.cfg"] + (["Gnp_d5.cfg"] if tier == "thorough" else [])
        for cfg in cfgs:
            res = run_tlc("Gnp.tla", cfg, work.path("mc"), workers=8, timeout=3000, heap="12g")
            if tlc_failed(res):
                raise ToolError("model checking Gnp/%s failed:\n%s" % (cfg, tlc_error_text(res)))
            mcs.append({"config": cfg, "distinct_states": res["distinct"], "states_generated": res["generated"]})
            log("model checked Gnp/%s: %d states" % (cfg, res["distinct"]))
        # the pinned undirected rule must be refuted by TLC (non-vacuity of the model)
        res = run_tlc("Gnp.tla", "Gnp_u_pinned.cfg", work.path("mc"), workers=4, timeout=600, heap="4g")
        refuted = "is violated" in res["out"]
        if not refuted:
            raise ToolError("the model no longer refutes the 'pinned' undirected rule: the Gnp invariants are vacuous")
        nmax, seeds = (300, 4000) if tier == "thorough" else (40, 400)
        trace = work.path("gens.ndjson")
        info = run_gv(gv, ["gens", "--out", trace, "--nmax", nmax, "--seeds", seeds, "--thorough", 1 if tier == "thorough" else 0, "--seed", seed()])
        results, distinct, generated = monitor_shards("MonitorGen", [trace], work.dir)
        ncs = parse_nonconf(results[0]["out"])
        evs = read_events(trace, [x[0] for x in ncs])
        binding_lost = 0
        fails = {}
        for eid, group, checks in ncs:
            ev = evs[eid]
            if group == "binding":
                binding_lost += 1
                continue
            if group not in DECIDING:
                continue
            for c in checks:
                fails[(group, c)] = fails.get((group, c), 0) + 1
                small = {k: v for k, v in ev.items() if k not in ("skips",)}
                what = "%s/%s: %s" % (group, c, json.dumps(small)[:300])
                verdict.nonconf(group, c, small, what,
                                {"property": prop, "kind": "gens", "nmax": nmax, "seeds": seeds, "thorough": 1 if tier == "thorough" else 0,
                                 "seed": seed(), "failed_checks": [c], "event": small})
        kinds = {}
        samples = []
        with open(trace) as f:
            for i, line in enumerate(f):
                e = json.loads(line)
                kinds[e["op"]["k"]] = kinds.get(e["op"]["k"], 0) + 1
                if i in (40, 130) or (e["op"]["k"] == "gnp_skips" and len(samples) < 3):
                    samples.append({k: v for k, v in e.items() if k != "first_bad"})
        runs = sum(1 for _ in open(trace))
        cov = {
            "states": sum(m["distinct_states"] for m in mcs) + distinct,
            "transitions": sum(m["states_generated"] for m in mcs) + generated,
            "traces_validated_against_impl": info["events"],
            "samples": samples[:3],
            "model_checking": {"module": "Gnp", "runs": mcs, "pinned_rule_refuted": refuted,
                               "properties": ["ValidPairs", "Increasing", "NoRepeat", "AllNextReachable", "SlotCounter", "EndsWhenExhausted"]},
            "direction1": {"events": kinds, "n_up_to": nmax, "seeds_per_configuration": seeds,
                           "failed_checks": {"%s/%s" % k: v for k, v in fails.items()},
                           "binding_model_replay_mismatches": binding_lost,
                           "binding_note": "gnp_skips events replay the library's own skip sequence through GnpRules!Run; a mismatch while the "
                                           "structural and statistical checks pass means the code no longer follows the published scheme "
                                           "(binding lost), which is reported here and is not by itself a violation"},
            "explanation": "Scheme: TLC exhausts the skipping loops for small n with an arbitrary skip per iteration. Implementation: seeded runs for n in "
                           "0..%d x 6 probabilities x both kinds judged structurally (Ok, nodes 0..n-1, no loop, no repeated pair), statistically "
                           "(mean edge count within p*pairs/(n-1) + 6 sigma; for n<=7 at p=1/2 every pair occurs with frequency in [p, p(2-p)] +- 6 sigma), "
                           "invalid p rejected, complete_graph (edge lists for n <= 8 / 12; counts for n = 20..257 / 1001 on either side of 64, 128, 256, 1000) and karate_club_graph against their definitions." % nmax,
        }
        rc = verdict.finish()
        write_evidence(prop, tier, "model_checking", cov, time.time() - t0, len(verdict.violations),
                       ["TLC 1.8.0, Json/IOUtils", "the z-scores are computed in f64 by the harness (harness/src/gens.rs); thresholds (6 sigma) are held in MonitorGen",
                        "false-alarm probability of the statistical checks < 1e-8 per configuration"])
        return rc
    finally:
        work.close()


def run_c17(tier, replay=None):
    """C17: seeded functions are reproducible (in process, across processes, across pool sizes)."""
    prop = "C17"
    t0 = time.time()
    work = Work(prop)
    verdict = Verdict(prop)
    try:
        gv = build_harness()
        th = 1 if tier == "thorough" else 0
        sd = seed()
        if replay:
            r = json.load(open(replay))
            th, sd = r.get("thorough", 0), r.get("seed", 0)
        trace = work.path("repro.ndjson")
        info = run_gv(gv, ["repro", "--out", trace, "--thorough", th, "--seed", sd], timeout=7200)
        results, distinct, generated = monitor_shards("MonitorRepro", [trace], work.dir)
        ncs = parse_nonconf(results[0]["out"])
        evs = read_events(trace, [x[0] for x in ncs])
        fails = {}
        for eid, group, checks in ncs:
            ev = evs[eid]
            for c in checks:
                fails[c] = fails.get(c, 0) + 1
                verdict.nonconf(group, c, ev, "%s: %s" % (c, json.dumps(ev)[:400]),
                                {"property": prop, "kind": "repro", "seed": sd, "thorough": th, "event": ev})
        if replay:
            print("replay: %s" % ("violations" if ncs else "conforms"))
            return verdict.finish()
        kinds = {}
        total_calls = 0
        samples = []
        for line in open(trace):
            e = json.loads(line)
            kinds[e["op"]["k"]] = kinds.get(e["op"]["k"], 0) + 1
            if e["op"]["k"] == "repro_louvain":
                total_calls += e["runs_in_process"] + e["processes"] + 9
                if len(samples) < 2:
                    samples.append({k: e[k] for k in ("case", "seed", "runs_in_process", "processes", "distinct_total", "examples")})
            else:
                total_calls += e["calls"]
        cov = {
            "evaluations": total_calls,
            "distinct_nontrivial": kinds.get("repro_louvain", 0) + kinds.get("repro_gnp", 0),
            "rule": "one case = one argument tuple (graph, weighted, resolution, threshold, seed) of louvain_partitions/louvain_communities or (n, p, directed, seed) of "
                    "fast_gnp_random_graph; non-trivial: graphs with exact ties between candidate communities (paths, cycles, complete graphs, stars, barbell, grid, cube, "
                    "directed and undirected) and random graphs; each tuple is evaluated repeatedly in one process, in fresh processes and under pool sizes 1/4/16",
            "samples": samples,
            "states": distinct, "transitions": generated, "traces_validated_against_impl": sum(kinds.values()),
            "events": kinds, "failed_checks": fails,
            "explanation": "All results logged for one argument tuple must be equal (MonitorRepro). Results are canonicalised as sets of sets per level / sorted edge lists. "
                           "Non-randomised algorithms: five suites are executed three times per graph and compared after canonicalisation (BFS order inside a level is not contractual).",
        }
        rc = verdict.finish()
        write_evidence(prop, tier, "exploration", cov, time.time() - t0, len(verdict.violations),
                       ["hash-order dependence only shows with some probability per call: it is sampled by repetition (30/300 in-process runs, 5/20 processes)",
                        "canonicalisation in harness/src/repro.rs"])
        return rc
    finally:
        work.close()
