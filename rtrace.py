#!/usr/bin/env python3
"""Traces recorded from the repository's own test suite -> events for spec/MonitorMut.tla.

`record(work)` builds /repo's tests with `--cfg graphrs_verif` (own target directory), runs them with
GRAPHRS_VERIF_TRACE set, and returns the raw records the mutation hook (src/graph/verif.rs) wrote:
one per outermost add_node / add_edge call on a small graph, with every private index before and
after the call.  `to_events(records)` turns them into a forest trace:

  state event     {"op": {"k": "state"}, post = the graph before the call, snap = its indexes}
  mutation event  {"op": {"k": "add_edge" | "add_node", ...}, parent = the state (or the mutation
                   event that left exactly this graph), res, post, snap}

Records that are identical (same specs, argument, indexes before and after, outcome) are consumed
once.  Names are already ranks (the hook ranks them by the name type's Ord); weights are mapped to
small integers preserving equality and order (NaN = -1), which is all the mutation rules and the
index checks depend on.
"""
import glob, json, os, subprocess, sys, time

NAN_W = -1


def record(workdir, target_dir, log=lambda s: None, features=None, repo="/repo"):
    """Runs /repo's test suite with the mutation hook on; returns (records, info)."""
    prefix = os.path.join(workdir, "rt")
    env = dict(os.environ)
    env.update({"RUSTFLAGS": "--cfg graphrs_verif", "RUSTDOCFLAGS": "--cfg graphrs_verif",
                "GRAPHRS_VERIF_TRACE": prefix, "CARGO_TARGET_DIR": target_dir, "CARGO_NET_OFFLINE": "true"})
    t0 = time.time()
    cmd = ["cargo", "test", "--offline", "--workspace", "--no-fail-fast"]
    try:
        r = subprocess.run(cmd, cwd=repo, env=env, capture_output=True, text=True, timeout=1800)
        out = r.stdout + r.stderr
    except subprocess.TimeoutExpired as e:
        # a test that does not return: the records written so far are still validated
        out = (e.stdout or b"").decode("utf8", "replace") + (e.stderr or b"").decode("utf8", "replace") if isinstance(e.stdout, bytes) else (e.stdout or "") + (e.stderr or "")
        out += "\ntest result: timed out. 0 passed; 0 failed;"
        log("the repository's test suite did not finish within 30 min; validating the records written so far")
    if "error: could not compile" in out or "test result:" not in out:
        raise RuntimeError("the repository's tests do not build with --cfg graphrs_verif:\n" + out[-3000:])
    passed = sum(int(l.split(" passed")[0].split()[-1]) for l in out.splitlines() if l.startswith("test result:"))
    failed = sum(int(l.split(" failed")[0].split()[-1]) for l in out.splitlines() if l.startswith("test result:"))
    records, skipped = [], 0
    for f in sorted(glob.glob(prefix + ".*.ndjson")):
        last = 0
        for line in open(f):
            line = line.strip()
            if not line:
                continue
            try:
                rec = json.loads(line)
            except ValueError:
                continue            # a line cut short by a test process that aborted
            records.append(rec)
            last = max(last, rec.get("skipped", 0))
        skipped += last
        os.unlink(f)
    log("repository tests with the mutation hook: %d passed, %d failed, %d records (%d calls on larger graphs not traced) in %ds"
        % (passed, failed, len(records), skipped, time.time() - t0))
    return records, {"tests_passed": passed, "tests_failed": failed, "records": len(records), "calls_on_larger_graphs_not_traced": skipped}


def _weights(x, acc):
    if isinstance(x, list):
        for y in x:
            _weights(y, acc)


def _wmap(rec):
    """order-preserving integer codes for the weights of one record"""
    vals = set()

    def edge_ws(snap):
        for key in ("edges", "edges_map"):
            for k in snap[key]:
                for e in k[2]:
                    vals.add(e[2])
        for key in ("succ_vec", "pred_vec"):
            for l in snap[key]:
                for a in l:
                    vals.add(a[1])
    edge_ws(rec["pre"])
    edge_ws(rec["post"])
    vals.add(rec["weight"])
    fin = sorted(v for v in vals if not isinstance(v, str))
    m = {v: i + 1 for i, v in enumerate(fin)}
    # integral weights keep their value when that preserves the order (readable traces)
    if all(float(v).is_integer() and 0 <= v < 1000 for v in fin):
        m = {v: int(v) for v in fin}
    for v in vals:
        if isinstance(v, str):
            m[v] = NAN_W if v == "NaN" else (2000000 if v == "inf" else -2000000)
    return m


def _snap(s, wm):
    el = lambda es: [[e[0], e[1], wm[e[2]], e[3]] for e in es]
    out = dict(s)
    out["edges"] = [[k[0], k[1], el(k[2])] for k in s["edges"]]
    out["edges_map"] = [[k[0], k[1], el(k[2])] for k in s["edges_map"]]
    out["succ_vec"] = [[[a[0], wm[a[1]]] for a in l] for l in s["succ_vec"]]
    out["pred_vec"] = [[[a[0], wm[a[1]]] for a in l] for l in s["pred_vec"]]
    return out


def _project(specs, snap):
    """the abstract state, read off the name-keyed stores exactly as get_all_nodes / get_all_edges do"""
    edges = [e for k in snap["edges"] for e in k[2]]
    edges.sort(key=lambda e: (e[0], e[1]))          # stable: per-pair order kept
    return {"specs": specs, "nodes": snap["nodes_vec"], "edges": edges}


def _uniform(proj, extra):
    ws = [e[2] for e in proj["edges"]] + extra
    return all(w == NAN_W for w in ws) or all(w != NAN_W for w in ws)


def to_events(records, limit=None):
    seen = set()
    events = []
    by_post = {}

    def emit(ev):
        ev["id"] = len(events) + 1
        events.append(ev)
        return ev["id"]

    for rec in records:
        key = json.dumps({k: rec[k] for k in ("specs", "op", "names", "weight", "attr", "res", "pre", "post")}, sort_keys=True)
        if key in seen:
            continue
        seen.add(key)
        if limit and len(seen) > limit:
            break
        wm = _wmap(rec)
        pre_s, post_s = _snap(rec["pre"], wm), _snap(rec["post"], wm)
        pre, post = _project(rec["specs"], pre_s), _project(rec["specs"], post_s)
        w = wm[rec["weight"]]
        pkey = json.dumps([pre, pre_s], sort_keys=True)
        parent = by_post.get(pkey)
        if parent is None:
            parent = emit({"parent": 0, "op": {"k": "state", "ns": [], "es": []}, "res": "Ok", "post": pre,
                           "has_snap": True, "snap": pre_s, "uniform": _uniform(pre, [])})
            by_post[pkey] = parent
        if rec["op"] == "add_edge":
            op = {"k": "add_edge", "ns": [], "es": [[rec["names"][0], rec["names"][1], w, rec["attr"]]]}
            extra = [w]
        else:
            op = {"k": "add_node", "ns": [[rec["names"][0], rec["attr"]]], "es": []}
            extra = []
        eid = emit({"parent": parent, "op": op, "res": rec["res"], "post": post, "has_snap": True, "snap": post_s,
                    "uniform": _uniform(pre, extra) and _uniform(post, [])})
        by_post.setdefault(json.dumps([post, post_s], sort_keys=True), eid)
    return events


if __name__ == "__main__":
    recs = [json.loads(l) for f in sys.argv[2:] for l in open(f) if l.strip()]
    evs = to_events(recs)
    with open(sys.argv[1], "w") as f:
        for e in evs:
            f.write(json.dumps(e) + "\n")
    print(len(recs), "records ->", len(evs), "events")
