SPECIFICATION Spec
CONSTANTS
  N = 4
  Directed = FALSE
  WSet <- W12
  OnImprove = "keep"
INVARIANTS
  SearchCorrect
  DependencyCorrect
PROPERTIES
  Terminates
CHECK_DEADLOCK FALSE
