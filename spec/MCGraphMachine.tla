---------------------------- MODULE MCGraphMachine ----------------------------
(* Bounded model-checking instance of GraphMachine: all 96 GraphSpecs. *)
EXTENDS GraphMachine

MC_NameU == 1..3
MC_WeightU == {NaN, 1, 2}
MC_AttrU == {0, 1}
MC_EdgeAttrU1 == {0}
MC_EdgeAttrU2 == {0, 1}
MC_SpecsU == AllSpecs
View == g
=============================================================================
