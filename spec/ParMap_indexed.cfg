SPECIFICATION Spec
CONSTANTS
  K = 3
  MCItems = 4
  MCMode = "indexed"
INVARIANT TypeOK
INVARIANT RunOnce
INVARIANT BarrierBeforeCombine
INVARIANT PrefixOfSerial
INVARIANT KeyedComplete
INVARIANT FinalIsSerial
PROPERTY Terminates
CHECK_DEADLOCK FALSE
