SPECIFICATION Spec
CONSTANTS
  N = 4
  Directed = TRUE
  Loops = FALSE
  WSet <- WNaN
  MaxE = 12
INVARIANT InvDefinitionsAgree
INVARIANT InvSymmetric
INVARIANT InvTriangle
INVARIANT InvBetweennessSane
INVARIANT InvClosenessRange
CHECK_DEADLOCK FALSE
