SPECIFICATION SimSpec
CONSTANTS
  NameU <- MC_NameU
  WeightU <- MC_WeightU
  AttrU <- MC_AttrU
  EdgeAttrU <- MC_EdgeAttrU
  SpecsU <- MC_SpecsU
  MaxEdges = 99
  Depth = 10
INVARIANT Emit
CHECK_DEADLOCK FALSE
