---------------------------- MODULE LouvainRules -----------------------------
(***************************************************************************)
(* The local-move phase of Louvain (compute_one_level in louvain.rs) as a  *)
(* state machine with exact integer arithmetic.                            *)
(*                                                                         *)
(* Nodes are visited in a fixed order (the seeded shuffle), sweep after    *)
(* sweep, until a whole sweep moves nothing.  Visiting u:                  *)
(*   - u is taken out of its community (its degree leaves the totals),     *)
(*   - for every community c of a neighbour of u the gain is               *)
(*       undirected  2*wt(u,c) - res*Stot[c]*deg(u)/m                      *)
(*       directed    wt(u,c) - res*(out(u)*StotIn[c] + in(u)*StotOut[c])/m *)
(*     (here multiplied by m*rd so that it is an integer; res = rn/rd),    *)
(*   - the best community is the first one, in the candidate order, whose  *)
(*     gain is strictly larger than everything before it and than 0;       *)
(*     u stays where it is if no gain is positive.                         *)
(*                                                                         *)
(* NbrRule "in_and_out": wt(u,c) counts edges from and to u (the repaired  *)
(*   code, as networkx).  "out_only": successors only (the code as pinned; *)
(*   TLC finds a sweep cycle on small digraphs: non-termination).          *)
(* TieRule "ascending": candidates in ascending community id (repaired     *)
(*   code: a pure function of the visiting order).  "any": an exact tie    *)
(*   may be broken either way (hash order, code as pinned): TLC shows the  *)
(*   outcome is then not a function of the arguments.                      *)
(*                                                                         *)
(* Communities are numbered by the rank of the node that founded them      *)
(* (node2com starts as the identity on sorted node ranks).                 *)
(***************************************************************************)
EXTENDS Api

(* ----- the pure one-visit function, shared by the model and by the monitor ----- *)

(* edge mass between u and community members S, by rule *)
WtTo(g, weighted, u, S, nbrRule) ==
  LET out == Mass(g, weighted, {k \in Keys(g) : k[1] = u /\ k[2] \in S /\ k[2] # u})
      inn == Mass(g, weighted, {k \in Keys(g) : k[2] = u /\ k[1] \in S /\ k[1] # u})
  IN IF g.specs.directed THEN (IF nbrRule = "in_and_out" THEN out + inn ELSE out)
     ELSE out + inn          \* an undirected edge is stored once, in either key position

Members(com, c) == {n \in DOMAIN com : com[n] = c}

(* m * rd * gain of moving u into community c, u already removed from its own *)
Gain(g, weighted, com, u, c, res, nbrRule) ==
  LET m == Mass(g, weighted, Keys(g))
      S == Members(com, c) \ {u}
      wt == WtTo(g, weighted, u, S, nbrRule)
  IN IF g.specs.directed
       THEN m * res[2] * wt
            - res[1] * (OutMass(g, weighted, u) * SumOver(S, LAMBDA n : InMass(g, weighted, n))
                        + InMass(g, weighted, u) * SumOver(S, LAMBDA n : OutMass(g, weighted, n)))
       ELSE 2 * m * res[2] * wt - res[1] * DegMass(g, weighted, u) * SumOver(S, LAMBDA n : DegMass(g, weighted, n))

(* communities that hold a traversal neighbour of u (successors / neighbours, self excluded) *)
Candidates(g, com, u, nbrRule) ==
  LET nb == IF g.specs.directed /\ nbrRule = "in_and_out" THEN NeighborNames(g, u) ELSE SuccNames(g, u)
  IN {com[v] : v \in nb \ {u}}

(* the communities u may end up in: a set (singleton under the ascending rule) *)
Choices(g, weighted, com, u, res, nbrRule, tieRule) ==
  LET cs == Candidates(g, com, u, nbrRule)
      G(c) == Gain(g, weighted, com, u, c, res, nbrRule)
      pos == {c \in cs : G(c) > 0}
      best == {c \in pos : \A d \in pos : G(d) <= G(c)}
  IN IF pos = {} THEN {com[u]}
     ELSE IF tieRule = "ascending" THEN {CHOOSE c \in best : \A d \in best : c <= d}
     ELSE best

(* a whole local-move phase for a fixed visiting order, deterministic rule: the final node -> community map *)
RECURSIVE Sweeps(_, _, _, _, _, _, _, _)
Sweeps(g, weighted, com, order, i, moved, res, fuel) ==
  IF fuel = 0 THEN com
  ELSE IF i > Len(order) THEN (IF moved THEN Sweeps(g, weighted, com, order, 1, FALSE, res, fuel - 1) ELSE com)
  ELSE LET u == order[i]
           c == CHOOSE x \in Choices(g, weighted, com, u, res, "in_and_out", "ascending") : TRUE
       IN Sweeps(g, weighted, IF c = com[u] THEN com ELSE [com EXCEPT ![u] = c], order, i + 1, moved \/ c # com[u], res, fuel)

(* rank of a name among the sorted names, 0-based: the library's node_map *)
RankOf(g, n) == Cardinality({x \in Names(g) : x < n})

FirstLevel(g, weighted, order, res) ==
  LET init == [n \in Names(g) |-> RankOf(g, n)]
      final == Sweeps(g, weighted, init, order, 1, FALSE, res, 50)
  IN {Members(final, c) : c \in {final[n] : n \in Names(g)}}


(* binding of the mechanism to the code: the first returned level is the result of the
   local-move phase for the visiting order the library derives from the seed *)
MechChecks(g, a) ==
  [i \in DOMAIN a.runs |->
     <<"first_level_is_local_move_fixpoint_run" \o ToString(i),
       LET r == a.runs[i] IN
       (r.ans.e = "" /\ ~g.specs.multi /\ Len(r.ans.v) >= 1 /\ r.seed >= 0 /\ Keys(g) # {}) =>
          FamSet(r.ans.v[1]) = FirstLevel(g, r.weighted, r.order, r.res)>>]
=============================================================================
