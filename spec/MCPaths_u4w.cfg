SPECIFICATION Spec
CONSTANTS
  N = 4
  Directed = FALSE
  Loops = FALSE
  WSet <- W12
  MaxE = 6
INVARIANT InvDefinitionsAgree
INVARIANT InvSymmetric
INVARIANT InvTriangle
INVARIANT InvBetweennessSane
INVARIANT InvClosenessRange
CHECK_DEADLOCK FALSE
