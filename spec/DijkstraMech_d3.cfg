SPECIFICATION Spec
CONSTANTS
  N = 3
  Directed = TRUE
  WSet <- W012
  Cutoffs <- C_few
  Buffers = "fresh"
INVARIANTS
  Settled
  AtEnd
  RunAgrees
PROPERTIES
  Monotone
  Terminates
CHECK_DEADLOCK FALSE
