-------------------------------- MODULE Gnp --------------------------------
(***************************************************************************)
(* C16: the geometric-skipping scheme of fast_gnp_random_graph (Batagelj   *)
(* and Brandes 2005) with the skip length as a nondeterministic choice,    *)
(* and the definitions of the complete graph and the karate-club constants.*)
(*                                                                         *)
(* One iteration of the loop is the pure function StepD / StepU            *)
(* (module GnpRules).  The                                                 *)
(* state machine draws an arbitrary skip >= 0 per iteration; TLC checks    *)
(* that every emitted pair is valid, that pairs are emitted in strictly    *)
(* increasing slot order (hence no pair twice), and the reachability lemma *)
(* "from every state every later pair can be the next one emitted", which  *)
(* by induction makes every subset of pairs a possible outcome.  For the   *)
(* undirected loop the stronger slot-counter invariant holds: the linear   *)
(* slot index advances by exactly 1 + skip, so geometric skips give        *)
(* independent Bernoulli(p) slots.  The directed loop (as published) moves *)
(* a landing on the diagonal to the next slot - the deviation the property *)
(* allows for.                                                             *)
(*                                                                         *)
(* Variant "published": the undirected normalisation is  w -= v; v += 1.   *)
(* Variant "pinned": what the pinned code does,  w += v; v += 1  (TLC      *)
(* refutes SlotCounter for it at once).                                    *)
(***************************************************************************)
EXTENDS GnpRules

CONSTANTS N,        \* number of nodes
          Directed, \* BOOLEAN
          Variant   \* "published" | "pinned"

MaxSkip == N * N + 1

StepD(v, w, skip) == StepDn(N, v, w, skip)
StepU(v, w, skip) == StepUn(N, Variant, v, w, skip)
Step(v, w, skip) == IF Directed THEN StepD(v, w, skip) ELSE StepU(v, w, skip)

(* --- slots --- *)
Pairs == IF Directed THEN {p \in (0..(N - 1)) \X (0..(N - 1)) : p[1] # p[2]}
         ELSE {p \in (0..(N - 1)) \X (0..(N - 1)) : p[2] < p[1]}        \* emitted as (v, w) with w < v
(* row-major order of the slots *)
Before(p, q) == p[1] < q[1] \/ (p[1] = q[1] /\ p[2] < q[2])
(* linear index of an undirected slot: v(v-1)/2 + w *)
LinU(v, w) == (v * (v - 1)) \div 2 + w

---------------------------------------------------------------------------
VARIABLES v, w, edges, last, ghost, done

vars == <<v, w, edges, last, ghost, done>>

Init == /\ v = IF Directed THEN 0 ELSE 1
        /\ w = -1
        /\ edges = {}
        /\ last = <<-1, -1>>
        /\ ghost = -1            \* linear index of the last visited undirected slot
        /\ done = (v >= N)

Iter(skip) ==
  /\ ~done
  /\ LET s == Step(v, w, skip) IN
     /\ v' = s.v /\ w' = s.w
     /\ ghost' = ghost + 1 + skip
     /\ IF s.v < N
          THEN /\ edges' = edges \cup {<<s.v, s.w>>}
               /\ last' = <<s.v, s.w>>
               /\ done' = FALSE
          ELSE /\ UNCHANGED <<edges, last>>
               /\ done' = TRUE

Next == \E skip \in 0..MaxSkip : Iter(skip)

Spec == Init /\ [][Next]_vars

(* --- properties --- *)
ValidPairs == edges \subseteq Pairs

(* a pair is emitted only after all earlier-emitted pairs: strictly increasing order *)
Increasing == [][(~done /\ ~done') => (last = <<-1, -1>> \/ Before(last, last'))]_vars

(* no pair is ever emitted twice: the emitted pair is new *)
NoRepeat == [][(~done /\ ~done') => last' \notin edges]_vars

(* from every live state, every pair after the last one emitted can be the next one *)
AllNextReachable ==
  ~done => \A p \in Pairs :
              (last = <<-1, -1>> \/ Before(last, p)) =>
                 \E skip \in 0..MaxSkip : LET s == Step(v, w, skip) IN s.v = p[1] /\ s.w = p[2]

(* undirected: the position is the slot with linear index `ghost` *)
SlotCounter == (~Directed /\ ~done /\ last # <<-1, -1>>) => LinU(v, w) = ghost

(* termination: the loop ends exactly when the position leaves the slot range *)
EndsWhenExhausted == (~Directed /\ done) => ghost >= Cardinality(Pairs)

=============================================================================
