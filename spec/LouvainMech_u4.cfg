SPECIFICATION Spec
CONSTANTS
  N = 4
  Directed = FALSE
  WSet <- W1
  NbrRule = "in_and_out"
  TieRule = "ascending"
INVARIANT IsPartitionInv

PROPERTY MoveIncreasesModularity
PROPERTY Terminates
CHECK_DEADLOCK FALSE
