------------------------------ MODULE GenDocs ------------------------------
(***************************************************************************)
(* C19, input side (direction 2): TLC enumerates every near-GraphML        *)
(* document of bounded length over the token alphabet of GraphML.tla and   *)
(* prints it as  DOC {"toks":[..]}.  The harness renders each to text and  *)
(* feeds it to read_graphml_string in an expendable child process.         *)
(*   GEN_LEN   content units per document (exactly that many, all smaller  *)
(*             lengths included)                                           *)
(*   GEN_HDR   "std": key + <graph directed|undirected> only               *)
(*             "all": every header variant (key forms x graph forms,       *)
(*             no graph element, two graph elements)                       *)
(***************************************************************************)
EXTENDS Integers, Sequences, FiniteSets, TLC, Json, IOUtils

MaxLen == atoi(IOEnv.GEN_LEN)
AllHeaders == IOEnv.GEN_HDR = "all"

Ids == {0, 1, 2}          \* 0 = attribute missing
(* where the input ends: inside a tag, after an opened edge, inside weight data of either key,
   inside other data, inside a comment, inside a CDATA section *)
(* weight texts that a number parser may or may not accept: overflowing exponent, negative zero, hex,
   explicit sign, digit separator, NaN, infinity, 400 digits, non-ASCII digits,
   a long non-numeric text of two-byte characters at odd byte offsets (anything that cuts it at a byte count splits one) *)
OddNumbers == {"exp", "negzero", "hex", "plus", "sep", "nan", "inf", "long", "uni", "longuni"}
TruncPlaces == {"tag", "edge", "data", "dataalt", "dataother", "comment", "cdata"}
(* id 7 is the node whose name consists of the characters XML must escape: the document carries it as a mixture
   of entities and character references and the reader must decode them *)
NodeUnits == {<<[t |-> "N", id |-> i, open |-> o]>> : i \in Ids \cup {7}, o \in BOOLEAN}
EmptyEdgeUnits == {<<[t |-> "E", s |-> a, d |-> b, open |-> FALSE]>> : a \in Ids, b \in Ids}
                  \cup {<<[t |-> "E", s |-> 7, d |-> 1, open |-> FALSE]>>, <<[t |-> "E", s |-> 2, d |-> 7, open |-> FALSE]>>}
DataForms ==
  {[t |-> "D", key |-> "weight", txt |-> x, w |-> 3] : x \in {"num", "pad", "word", "empty", "child", "childnode", "childedge", "selfclose"} \cup OddNumbers}
  \cup {[t |-> "D", key |-> k, txt |-> "num", w |-> 5] : k \in {"alt", "other", "none"}}
OpenEdgeUnits ==
  {<<[t |-> "E", s |-> a, d |-> b, open |-> TRUE], [t |-> "/E"]>> : a \in {1, 2}, b \in {1, 2}}
  \cup {<<[t |-> "E", s |-> a, d |-> b, open |-> TRUE], dd, [t |-> "/E"]>> : a \in {1, 2}, b \in {1, 2}, dd \in DataForms}
OtherUnits == {<<[t |-> "D", key |-> "weight", txt |-> "num", w |-> 7]>>,   \* weight data outside an edge
               <<[t |-> "D", key |-> "weight", txt |-> "selfclose", w |-> 7]>>,   \* an empty-element weight tag, anywhere
               <<[t |-> "X"]>>, <<[t |-> "T"]>>, <<[t |-> "C"]>>,
               <<[t |-> "DUP", id |-> 1]>>, <<[t |-> "ENT"]>>, <<[t |-> "BADEND"]>>, <<[t |-> "NU"]>>}
              \cup {<<[t |-> "TRUNC", at |-> a]>> : a \in TruncPlaces}
Units == NodeUnits \cup EmptyEdgeUnits \cup OpenEdgeUnits \cup OtherUnits

KeyForms == IF AllHeaders THEN {"none", "std", "alt", "nofor", "noid", "othername"} ELSE {"std"}
(* "h_*": a declared graph element that also carries the optional GraphML attributes a reader may or
   may not look at (id, parse.nodes / parse.edges / parse.order size hints) with small, huge (2^62,
   10^15), and non-numeric / negative / overflowing values; the contract ignores them *)
HintForms == {"h_small", "h_huge", "h_big", "h_word"}
GraphForms == IF AllHeaders THEN {"directed", "undirected", "other", "otheruni", "none", "absent", "twice"} \cup HintForms ELSE {"directed", "undirected"}

KeyToks(k) == IF k = "none" THEN <<>> ELSE <<[t |-> "K", form |-> k]>>

RECURSIVE Flatten(_)
Flatten(us) == IF us = <<>> THEN <<>> ELSE Head(us) \o Flatten(Tail(us))

Doc(k, gf, content) ==
  KeyToks(k) \o
  (CASE gf = "absent" -> content
     [] gf = "twice" -> <<[t |-> "G", dflt |-> "directed"]>> \o content \o <<[t |-> "/G"], [t |-> "G", dflt |-> "undirected"], [t |-> "/G"]>>
     [] gf \in HintForms -> <<[t |-> "G", dflt |-> IF gf = "h_big" THEN "undirected" ELSE "directed", hints |-> gf]>> \o content \o <<[t |-> "/G"]>>
     [] OTHER -> <<[t |-> "G", dflt |-> gf]>> \o content \o <<[t |-> "/G"]>>)

VARIABLE x
Init == /\ x = 0
        /\ \A n \in 0..MaxLen : \A us \in [1..n -> Units] : \A k \in KeyForms : \A gf \in GraphForms :
              PrintT("DOC " \o ToJson([toks |-> Doc(k, gf, Flatten(us))]))
Next == UNCHANGED x
Spec == Init /\ [][Next]_x
=============================================================================
