SPECIFICATION Spec
CONSTANTS
  NameU <- MC_NameU
  WeightU <- MC_WeightU
  AttrU <- MC_AttrU
  EdgeAttrU <- MC_EdgeAttrU2
  SpecsU <- MC_SpecsU
  MaxEdges = 2
CONSTRAINT Bounded
VIEW View
INVARIANT InvWellFormed
PROPERTY RejectedChangesNothing
PROPERTY NamesOnlyAppend
PROPERTY SpecsNeverChange
PROPERTY EdgesMonotone
CHECK_DEADLOCK FALSE
