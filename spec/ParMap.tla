------------------------------- MODULE ParMap -------------------------------
(***************************************************************************)
(* C07: the shape of every data-parallel section of graphrs                *)
(*     items.into_par_iter().map(F).collect::<Vec<_>>()  then a sequential *)
(*     loop that combines the results                                      *)
(* as a state machine with K workers.  Any idle worker may take any        *)
(* pending item (this covers every work-stealing order); F is a pure       *)
(* function of (graph, item); the collected vector is indexed by item, not *)
(* by completion time; the combine loop runs after the collect barrier, in *)
(* index order.  The result of the section is modelled as the SEQUENCE of  *)
(* combine steps: if that sequence is the serial one on every schedule,    *)
(* the floating-point result is bit-identical whatever + does.             *)
(*                                                                         *)
(* Mode "indexed"   what the code does (collect into a Vec, then combine)   *)
(* Mode "on_finish" a deliberately wrong variant that accumulates as items *)
(*                  finish; TLC must refute PrefixOfSerial for it          *)
(* Mode "keyed"     collect into a map keyed by item (multi_source,        *)
(*                  closeness): the result is a set, order-free            *)
(***************************************************************************)
EXTENDS Integers, Sequences, FiniteSets, TLC

CONSTANTS K       \* number of workers

Workers == 1..K
None == -1

(* `nitems` and `mode` are fixed during one parallel section; they are variables so
   that a trace monitor can start a new section for every recorded call *)
VARIABLES nitems, mode, pending, running, slot, writer, collected, acc, keyed

vars == <<nitems, mode, pending, running, slot, writer, collected, acc, keyed>>

Items == 0..(nitems - 1)
NItems == nitems
Mode == mode

Start(n, m) ==
        /\ nitems = n
        /\ mode = m
        /\ pending = 0..(n - 1)
        /\ running = [w \in Workers |-> None]
        /\ slot = [i \in 0..(n - 1) |-> FALSE]
        /\ writer = [i \in 0..(n - 1) |-> None]
        /\ collected = FALSE
        /\ acc = <<>>
        /\ keyed = {}

CONSTANTS MCItems, MCMode
Init == Start(MCItems, MCMode)

Take(w, i) ==
  /\ running[w] = None /\ i \in pending
  /\ running' = [running EXCEPT ![w] = i]
  /\ pending' = pending \ {i}
  /\ UNCHANGED <<nitems, mode, slot, writer, collected, acc, keyed>>

Finish(w) ==
  /\ running[w] # None
  /\ LET i == running[w] IN
     /\ slot' = [slot EXCEPT ![i] = TRUE]
     /\ writer' = [writer EXCEPT ![i] = w]
     /\ running' = [running EXCEPT ![w] = None]
     /\ acc' = IF Mode = "on_finish" THEN Append(acc, i) ELSE acc
     /\ keyed' = IF Mode = "keyed" THEN keyed \cup {i} ELSE keyed
  /\ UNCHANGED <<nitems, mode, pending, collected>>

Collect ==
  /\ ~collected /\ \A i \in Items : slot[i]
  /\ collected' = TRUE
  /\ UNCHANGED <<nitems, mode, pending, running, slot, writer, acc, keyed>>

Combine ==
  /\ Mode = "indexed" /\ collected /\ Len(acc) < NItems
  /\ acc' = Append(acc, Len(acc))          \* the vector is consumed front to back
  /\ UNCHANGED <<nitems, mode, pending, running, slot, writer, collected, keyed>>

Next == \/ \E w \in Workers, i \in Items : Take(w, i)
        \/ \E w \in Workers : Finish(w)
        \/ Collect
        \/ Combine

Spec == Init /\ [][Next]_vars /\ WF_vars(Next)

Serial == [i \in 1..NItems |-> i - 1]
IsPrefix(s, t) == Len(s) <= Len(t) /\ \A i \in DOMAIN s : s[i] = t[i]

TypeOK == /\ pending \subseteq Items
          /\ \A w \in Workers : running[w] \in Items \cup {None}
(* an item is never run by two workers, and never run twice *)
RunOnce == /\ \A w1, w2 \in Workers : (w1 # w2 /\ running[w1] # None) => running[w1] # running[w2]
           /\ \A i \in Items : (i \in pending) => (~slot[i] /\ \A w \in Workers : running[w] # i)
           /\ \A i \in Items : slot[i] => (i \notin pending /\ \A w \in Workers : running[w] # i)
(* nothing is combined before every item has finished *)
BarrierBeforeCombine == (Mode = "indexed" /\ Len(acc) > 0) => (collected /\ \A i \in Items : slot[i])
(* the sequence of combine steps is always a prefix of the serial sequence *)
PrefixOfSerial == Mode # "keyed" => IsPrefix(acc, Serial)
(* the keyed result never depends on the schedule: at the barrier it is the full key set *)
KeyedComplete == (Mode = "keyed" /\ collected) => keyed = Items
Done == collected /\ (Mode = "indexed" => Len(acc) = NItems)
Terminates == <>Done
FinalIsSerial == Done => (Mode = "indexed" => acc = Serial)
=============================================================================
