------------------------------- MODULE Paths -------------------------------
(***************************************************************************)
(* Shortest paths over the abstract graph of GraphRules: the definitions   *)
(* that Dijkstra (C04), the option semantics (C08), betweenness (C05) and  *)
(* closeness (C06) are judged against.                                     *)
(*                                                                         *)
(* A path is a sequence of node names.  The cost of a step u -> v is the   *)
(* least weight among the edges stored from u to v (either orientation on  *)
(* an undirected graph), or 1 in hop-count mode.                           *)
(***************************************************************************)
EXTENDS GraphQuery

INF == 100000000

Only(S) == CHOOSE x \in S : TRUE

Arc(g, u, v) == IF g.specs.directed THEN <<u, v>> \in Keys(g) ELSE Key(g, u, v) \in Keys(g)

StepW(g, weighted, u, v) == IF weighted THEN PairMinW(g, u, v) ELSE 1

InNbrs(g, v) == {u \in Names(g) : Arc(g, u, v)}

(* TLC note.  A function constructor [x \in S |-> e] is a lazy closure in TLC: every
   application re-evaluates e.  Tables that are looked up repeatedly are therefore
   forced to explicit functions with TraceLib!Strict, and intermediate tables are
   bound with a set binder (Only({.. : d \in {..}})), which binds a value. *)

(* Dist(g, weighted, s)[v]: least cost of a path s ~> v, INF if there is none.
   n-1 rounds of relaxation (weights are >= 0). *)
RECURSIVE Relax(_, _, _, _, _)
Relax(g, weighted, N, d, k) ==
  IF k = 0 THEN d
  ELSE Only({Relax(g, weighted, N, d2, k - 1) :
               d2 \in {Strict([v \in N |->
                          MinOf({d[v]} \cup {d[u] + StepW(g, weighted, u, v) :
                                                u \in {x \in InNbrs(g, v) : d[x] < INF}})])}})

Dist(g, weighted, s) ==
  LET N == Names(g)
  IN Relax(g, weighted, N, Strict([v \in N |-> IF v = s THEN 0 ELSE INF]), Cardinality(N) - 1)

AllPositive(g, weighted) ==
  ~weighted \/ \A k \in Keys(g) : \A j \in DOMAIN g.edges[k] : g.edges[k][j].w > 0

(* ShortestPaths(g, weighted, s)[t]: the set of all least-cost paths s ~> t.
   Defined by walking the tight-edge DAG backwards; well-founded when every
   step cost is > 0. *)
ShortestPathsFrom(g, weighted, s, D) ==
  LET N == Names(g)
      Tight(t) == {u \in InNbrs(g, t) : D[u] < INF /\ D[u] + StepW(g, weighted, u, t) = D[t]}
      P[t \in N] == IF t = s THEN {<<s>>}
                    ELSE IF D[t] >= INF THEN {}
                    ELSE UNION {{Append(p, t) : p \in P[u]} : u \in Tight(t)}
  IN Strict([t \in N |-> P[t]])

ShortestPaths(g, weighted, s) ==
  Only({ShortestPathsFrom(g, weighted, s, D) : D \in {Dist(g, weighted, s)}})

(* cost of a concrete path; INF if it does not follow existing edges *)
RECURSIVE PathCost(_, _, _)
PathCost(g, weighted, p) ==
  IF Len(p) <= 1 THEN 0
  ELSE IF ~Arc(g, p[1], p[2]) THEN INF
  ELSE LET r == PathCost(g, weighted, Tail(p))
       IN IF r >= INF THEN INF ELSE StepW(g, weighted, p[1], p[2]) + r

ValidPath(g, weighted, s, t, d, p) ==
  /\ Len(p) >= 1 /\ p[1] = s /\ p[Len(p)] = t
  /\ \A i \in DOMAIN p : p[i] \in Names(g)
  /\ PathCost(g, weighted, p) = d

---------------------------------------------------------------------------
(* Judging a logged single-source answer.                                  *)
(* a = sequence of <<t, <<p, q>>, paths>> (one per reported target)        *)
(* opts = [target (0 = none), cutoff (-1 = none, else 2*c so that          *)
(*         midpoints are integers), first_only, with_paths]                *)

Reported(a) == {a[i][1] : i \in DOMAIN a}

EntryOK(g, weighted, s, D, SP, pos, opts, x) ==
  LET t == x[1]
      paths == x[3]
  IN /\ t \in Names(g)
     /\ D[t] < INF
     /\ x[2] = <<D[t], 1>>
     /\ IF ~opts.with_paths THEN paths = <<>>
        ELSE /\ \A i \in DOMAIN paths : ValidPath(g, weighted, s, t, D[t], paths[i])
             /\ \A i, j \in DOMAIN paths : paths[i] = paths[j] => i = j
             /\ IF opts.first_only THEN Len(paths) = 1
                ELSE pos => (Range(paths) = SP[t] /\ Len(paths) = Cardinality(SP[t]))
             /\ pos => \A i \in DOMAIN paths : paths[i] \in SP[t]

(* C04 + C08: a restricts, never changes.  D, SP, pos are Dist / ShortestPaths /
   AllPositive of (g, weighted, s), passed in so that they are computed once for
   all calls with the same source and mode. *)
SSOK(g, weighted, s, D, SP, pos, opts, a) ==
  LET within == {t \in Names(g) : D[t] < INF /\ (opts.cutoff < 0 \/ 2 * D[t] <= opts.cutoff)}
  IN /\ \A i, j \in DOMAIN a : a[i][1] = a[j][1] => i = j
     /\ Reported(a) \subseteq within
     /\ IF opts.target = 0 THEN Reported(a) = within
        ELSE (opts.target \in within <=> opts.target \in Reported(a))
     /\ \A i \in DOMAIN a : EntryOK(g, weighted, s, D, SP, pos, opts, a[i])

SPTable(g, weighted, s, pos, D) ==
  IF pos THEN ShortestPathsFrom(g, weighted, s, D) ELSE [t \in Names(g) |-> {}]

SingleSourceOK(g, weighted, s, opts, a) ==
  LET pos == AllPositive(g, weighted) IN
  \A D \in {Dist(g, weighted, s)} :
     \A SP \in {SPTable(g, weighted, s, pos, D)} : SSOK(g, weighted, s, D, SP, pos, opts, a)

(* pairs <<s, t>> having a shortest path with x strictly inside *)
AllShortestPaths(g, weighted) == Strict([s \in Names(g) |-> ShortestPaths(g, weighted, s)])

InvolvingIn(g, SPs, x) ==
  {st \in Names(g) \X Names(g) :
     \E p \in SPs[st[1]][st[2]] : \E i \in 2..(Len(p) - 1) : p[i] = x}

Involving(g, weighted, x) == InvolvingIn(g, AllShortestPaths(g, weighted), x)

---------------------------------------------------------------------------
(* Sanity theorems of the definitions, checked by TLC over enumerated      *)
(* graphs (module MCPaths): the recursive definitions agree with the       *)
(* brute-force definition over simple paths.                               *)

SimplePaths(g, s, t) ==
  LET N == Names(g)
      n == Cardinality(N)
      Seqs == UNION {[1..k -> N] : k \in 1..n}
  IN {p \in Seqs : /\ p[1] = s /\ p[Len(p)] = t
                   /\ \A i, j \in DOMAIN p : p[i] = p[j] => i = j
                   /\ \A i \in 1..(Len(p) - 1) : Arc(g, p[i], p[i + 1])}

BruteDist(g, weighted, s, t) ==
  LET SPs == SimplePaths(g, s, t)
  IN IF SPs = {} THEN INF ELSE MinOf({PathCost(g, weighted, p) : p \in SPs})

DefinitionsAgree(g, weighted) ==
  \A s \in Names(g) :
     \A D \in {Dist(g, weighted, s)} : \A SP \in {SPTable(g, weighted, s, AllPositive(g, weighted), D)} :
        \A t \in Names(g) :
          /\ D[t] = BruteDist(g, weighted, s, t)
          /\ AllPositive(g, weighted) =>
               SP[t] = {p \in SimplePaths(g, s, t) : PathCost(g, weighted, p) = D[t]}

AllDist(g, weighted) == Strict([s \in Names(g) |-> Dist(g, weighted, s)])

UndirectedSymmetric(g, weighted) ==
  ~g.specs.directed =>
     \A DD \in {AllDist(g, weighted)} : \A s, t \in Names(g) : DD[s][t] = DD[t][s]

Triangle(g, weighted) ==
  \A DD \in {AllDist(g, weighted)} :
     \A s, t, u \in Names(g) :
        (DD[s][t] < INF /\ DD[t][u] < INF) => DD[s][u] <= DD[s][t] + DD[t][u]
=============================================================================
