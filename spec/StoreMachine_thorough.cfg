SPECIFICATION Spec
CONSTANTS
  NameU <- MC_NameU
  RealWeightU <- MC_RealWeightU
  AttrU <- MC_AttrU0
  SpecsU <- MC_SpecsU
  MaxEdges = 3
  VecRule = "policy"
CONSTRAINT Bounded
INVARIANT SameOutcome
INVARIANT InvCoherent
INVARIANT InvAdjMatches
CHECK_DEADLOCK FALSE
