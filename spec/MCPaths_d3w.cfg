SPECIFICATION Spec
CONSTANTS
  N = 3
  Directed = TRUE
  Loops = TRUE
  WSet <- W012
  MaxE = 5
INVARIANT InvDefinitionsAgree
INVARIANT InvSymmetric
INVARIANT InvTriangle
INVARIANT InvBetweennessSane
INVARIANT InvClosenessRange
CHECK_DEADLOCK FALSE
