------------------------------ MODULE TraceLib ------------------------------
(***************************************************************************)
(* Decoding of harness traces (ndjson) into the values of GraphRules, and  *)
(* small helpers shared by all monitors.                                   *)
(*                                                                         *)
(* JSON conventions of the harness:                                        *)
(*   node  [name, attr]            edge [u, v, w, a]     NaN weight = -1   *)
(*   answer {"e": "" | error kind | "None", "v": value}                    *)
(*   rational [p, q] reduced, q > 0; [0,0] NaN; [1,0] +inf; [-1,0] -inf;   *)
(*            [x, -1] "not a small rational"                               *)
(***************************************************************************)
EXTENDS GraphRules

Range(s) == {s[i] : i \in DOMAIN s}

(* forces TLC to turn a lazy function closure into an explicit function *)
Strict(f) == IF f = f THEN f ELSE f

ToNodes(s) == IF s = <<>> THEN <<>>
              ELSE Strict([i \in 1..Len(s) |-> [name |-> s[i][1], attr |-> s[i][2]]])

ToEdgeArgs(s) == IF s = <<>> THEN <<>>
                 ELSE Strict([i \in 1..Len(s) |-> [u |-> s[i][1], v |-> s[i][2], w |-> s[i][3], a |-> s[i][4]]])

(* a flat edge list (stable by pair) -> the edges function of the abstract state *)
ToEdges(s) ==
  IF s = <<>> THEN <<>>
  ELSE LET ks == {<<s[i][1], s[i][2]>> : i \in 1..Len(s)}
       IN Strict([k \in ks |->
             LET sub == SelectSeq(s, LAMBDA e : e[1] = k[1] /\ e[2] = k[2])
             IN Strict([j \in 1..Len(sub) |-> [w |-> sub[j][3], a |-> sub[j][4]]])])

ToGraph(p) == [specs |-> p.specs, nodes |-> ToNodes(p.nodes), edges |-> ToEdges(p.edges)]

(* the edges stored for key k, as the harness prints them *)
FlatAt(g, k) == [j \in 1..Len(g.edges[k]) |-> <<k[1], k[2], g.edges[k][j].w, g.edges[k][j].a>>]

(* names of failed checks:  checks is a sequence of <<name, BOOLEAN>> *)
FailedOf(checks) == {checks[i][1] : i \in {j \in DOMAIN checks : ~checks[j][2]}}

RECURSIVE GCD(_, _)
GCD(a, b) == IF b = 0 THEN a ELSE GCD(b, a % b)
Abs(x) == IF x < 0 THEN -x ELSE x
(* reduced fraction <<p, q>> with q > 0 of num/den (den # 0) *)
Frac(num, den) ==
  LET s == IF den < 0 THEN -1 ELSE 1
      gg == GCD(Abs(num), Abs(den))
      d == IF gg = 0 THEN 1 ELSE gg
  IN <<(s * num) \div d, (s * den) \div d>>

(* Comparison of a logged rational with an exact expectation.  The harness logs
   <<p, q>> reduced when the float is within 4e-11 of a fraction with q <= 100000,
   and <<round(x * 10^6), -1>> otherwise; in the second case the expectation must
   indeed have a larger denominator and agree to 6 decimals. *)
RECURSIVE Digits(_, _, _, _)
Digits(r, den, k, acc) == IF k = 0 THEN acc ELSE Digits((r * 10) % den, den, k - 1, acc * 10 + (r * 10) \div den)
(* TLC's integers are 32-bit: (r * 10) overflows once den exceeds 2^31 / 10.  Larger fractions are
   first divided through by a common factor (an absolute error below 2e-8, far inside the comparison
   to six decimals below, whose tolerance is then two units instead of one). *)
BigDen == 100000000
Shrunk(num, den) == IF den <= BigDen THEN <<num, den>>
                    ELSE LET k == den \div BigDen + 1 IN <<num \div k, den \div k>>
Scaled6(num, den) ==                                                      \* num >= 0, den > 0
  LET f == Shrunk(num, den) IN (f[1] \div f[2]) * 1000000 + Digits(f[1] % f[2], f[2], 6, 0)
Scaled7(num, den) ==                                                      \* num >= 0, den > 0
  LET f == Shrunk(num, den) IN (f[1] \div f[2]) * 10000000 + Digits(f[1] % f[2], f[2], 7, 0)
Approx6(logged, expected) ==
  LET s == Scaled6(Abs(expected[1]), expected[2])
      l == IF logged[2] = -1 THEN Abs(logged[1]) ELSE Scaled6(Abs(logged[1]), logged[2])
  IN Abs(l - s) <= (IF expected[2] > BigDen THEN 2 ELSE 1) /\ (logged[1] < 0 <=> expected[1] < 0)
(* exact when the expectation has a small denominator (the reconstruction is then unique);
   when its denominator exceeds the reconstruction limit the harness logs either the
   scaled value or some other small fraction within its tolerance: compare to 6 decimals *)
RatMatches(logged, expected) ==
  \/ logged = expected
  \/ (expected[2] > 100000 /\ logged[2] # 0 /\ Approx6(logged, expected))
=============================================================================
