------------------------------ MODULE MCDerive ------------------------------
(***************************************************************************)
(* C15 at the design level: on every reachable state of the mutation       *)
(* machine (all 96 GraphSpecs) the derived graphs are well-formed for      *)
(* their specs, reverse is an involution, the subgraph on all nodes is the *)
(* graph itself, subgraphs nest, and collapsing preserves the total weight *)
(* and the adjacency.                                                      *)
(***************************************************************************)
EXTENDS GraphMachine, GraphDerive

InvSubgraph ==
  \A S \in SUBSET (NameU \cup {99}) :
     LET h == Subgraph(g, S) IN
     /\ WellFormed(h)
     /\ Names(h) = Names(g) \cap S
     /\ \A k \in Keys(h) : h.edges[k] = g.edges[k]
     /\ \A k \in Keys(g) : (k[1] \in S /\ k[2] \in S) => k \in Keys(h)
     /\ \A T \in {S \cap {1, 2}, S \cap {2, 3, 99}} : SameGraph(Subgraph(h, T), Subgraph(g, T))
InvSubgraphAll == SameGraph(Subgraph(g, Names(g)), g)

InvReverse ==
  LET r == Reverse(g) IN
  IF g.specs.directed
    THEN /\ r.res = "Ok" /\ WellFormed(r.g)
         /\ SameGraph(Reverse(r.g).g, g)
         /\ NumEdges(r.g) = NumEdges(g)
         /\ \A n \in Names(g) : SuccNames(r.g, n) = PredNames(g, n)
    ELSE r.res = "WrongMethod"

InvReweight ==
  \A w \in {NaN, 7} :
     LET h == Reweight(g, w) IN
     /\ WellFormed(h) /\ h.nodes = g.nodes /\ Keys(h) = Keys(g)
     /\ \A k \in Keys(g) : Len(h.edges[k]) = Len(g.edges[k]) /\ \A j \in DOMAIN h.edges[k] : h.edges[k][j].w = w

InvCollapse ==
  LET c == Collapse(g) IN
  IF g.specs.multi
    THEN /\ c.res = "Ok" /\ WellFormed(c.g) /\ ~c.g.specs.multi
         /\ c.g.nodes = g.nodes /\ Keys(c.g) = Keys(g)
         /\ ~HasNaNAt(g, Keys(g)) => WeightAt(c.g, Keys(c.g)) = WeightAt(g, Keys(g))
    ELSE c.res = "WrongMethod"

MC_NameU == 1..3
MC_WeightU == {NaN, 1}
MC_AttrU == {0}
MC_EdgeAttrU == {0}
MC_SpecsU == AllSpecs
View == g
=============================================================================
