SPECIFICATION Spec
CONSTANTS
  N = 3
  Directed = FALSE
  WSet <- W012
  Cutoffs <- C_some
  Buffers = "fresh"
INVARIANTS
  Settled
  AtEnd
  RunAgrees
PROPERTIES
  Monotone
  Terminates
CHECK_DEADLOCK FALSE
