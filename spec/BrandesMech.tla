----------------------------- MODULE BrandesMech -----------------------------
(***************************************************************************)
(* Betweenness centrality as betweenness.rs computes it (Brandes): for one *)
(* source a search that records, for every node, the number of shortest    *)
(* paths (sigma), the predecessors on shortest paths (P) and the order in  *)
(* which nodes were settled (S); then the dependency accumulation over S   *)
(* in reverse.  Modelled as a state machine with exact rational            *)
(* arithmetic, shaped like the code:                                       *)
(*                                                                         *)
(*  weighted search (fn dijkstra): a heap of entries <<d, pred, v, k>>     *)
(*    ordered by distance ONLY - FringeNode::cmp ignores everything else,  *)
(*    so which of several entries at the least distance is popped is up to *)
(*    BinaryHeap; here it is a nondeterministic choice and TLC explores    *)
(*    every order.  At a pop of an unsettled v: sigma[v] += sigma[pred].   *)
(*    A strictly better tentative distance resets sigma and P of the node, *)
(*    an equal one adds to them.  (The source is pushed with itself as     *)
(*    predecessor, so every sigma is twice the number of shortest paths;   *)
(*    only ratios are used.)                                               *)
(*  unweighted search (fn bfs): a FIFO queue.                              *)
(*  accumulate_betweenness: one node of S per step, from the back.         *)
(*                                                                         *)
(* Checked on every graph over N nodes with weights from WSet, every       *)
(* source and every pop order:                                             *)
(*   SearchCorrect   at the end of the search D is Paths!Dist, sigma is    *)
(*                   proportional to the number of shortest paths, P is    *)
(*                   the set of tight predecessors, S is sorted by D       *)
(*   DependencyCorrect  the accumulated delta[v] is the sum over targets t *)
(*                   of the fraction of shortest src-t paths through v     *)
(*                   (the source's share of Centrality!BetweennessRaw)     *)
(* OnImprove = "reset" is the code; "keep" leaves sigma and P in place     *)
(* when a tentative distance improves (a realistic slip, the first seeded  *)
(* change for C05) and is refuted by TLC.                                  *)
(***************************************************************************)
EXTENDS Centrality

CONSTANTS N, Directed, WSet, OnImprove

VARIABLES g, src, D, seen, sigma, P, fringe, queue, S, cnt, phase, pos, delta

vars == <<g, src, D, seen, sigma, P, fringe, queue, S, cnt, phase, pos, delta>>

BPairs == {p \in (1..N) \X (1..N) : p[1] # p[2] /\ (Directed \/ p[1] < p[2])}
BSpecs == [directed |-> Directed, multi |-> FALSE, loops |-> FALSE, dedupe |-> "Error", missing |-> "Create", loopfalse |-> "Error"]
BGraphOf(E, wf) == [specs |-> BSpecs, nodes |-> [i \in 1..N |-> [name |-> i, attr |-> 0]], edges |-> [k \in E |-> <<[w |-> wf[k], a |-> 0]>>]]

Weighted == WSet # {NaN}
Succs(v) == {u \in 1..N : Arc(g, v, u)}

Init ==
  /\ \E E \in SUBSET BPairs : \E wf \in [E -> WSet] : g = BGraphOf(E, wf)
  /\ src \in 1..N
  /\ D = [v \in 1..N |-> IF ~Weighted /\ v = src THEN 0 ELSE INF]
  /\ seen = [v \in 1..N |-> IF v = src THEN 0 ELSE INF]
  /\ sigma = [v \in 1..N |-> IF v = src THEN 1 ELSE 0]
  /\ P = [v \in 1..N |-> <<>>]
  /\ fringe = IF Weighted THEN {<<0, src, src, 0>>} ELSE {}
  /\ queue = IF Weighted THEN <<>> ELSE <<src>>
  /\ S = <<>> /\ cnt = 0 /\ phase = "search" /\ pos = 0
  /\ delta = [v \in 1..N |-> <<0, 1>>]

(* the `for adj in successors(v)` loop of fn dijkstra over the remaining successors T of v;
   st = [seen, sigma, P, fringe, cnt] *)
RECURSIVE ScanW(_, _, _, _)
ScanW(st, v, d, T) ==
  IF T = {} THEN st
  ELSE LET w == MinOf(T)
           vw == d + StepW(g, TRUE, v, w)
           st2 == IF D[w] = INF /\ (st.seen[w] = INF \/ vw < st.seen[w])
                    THEN [st EXCEPT !.seen[w] = vw,
                                    !.cnt = st.cnt + 1,
                                    !.fringe = st.fringe \cup {<<vw, v, w, st.cnt + 1>>},
                                    !.sigma[w] = IF OnImprove = "reset" THEN 0 ELSE st.sigma[w],
                                    !.P[w] = IF OnImprove = "reset" THEN <<v>> ELSE Append(st.P[w], v)]
                  ELSE IF vw = st.seen[w]
                    THEN [st EXCEPT !.sigma[w] = st.sigma[w] + st.sigma[v], !.P[w] = Append(st.P[w], v)]
                  ELSE st
       IN ScanW(st2, v, d, T \ {w})

PopW ==
  /\ phase = "search" /\ Weighted /\ fringe # {}
  /\ \E x \in {y \in fringe : \A z \in fringe : y[1] <= z[1]} :
       LET v == x[3] IN
       IF D[v] # INF
         THEN /\ fringe' = fringe \ {x}
              /\ UNCHANGED <<D, seen, sigma, P, S, cnt>>
         ELSE LET sg == [sigma EXCEPT ![v] = sigma[v] + sigma[x[2]]]
                  st == ScanW([seen |-> seen, sigma |-> sg, P |-> P, fringe |-> fringe \ {x}, cnt |-> cnt], v, x[1], Succs(v))
              IN /\ D' = [D EXCEPT ![v] = x[1]]
                 /\ S' = Append(S, v)
                 /\ seen' = st.seen /\ sigma' = st.sigma /\ P' = st.P /\ fringe' = st.fringe /\ cnt' = st.cnt
  /\ UNCHANGED <<g, src, queue, phase, pos, delta>>

(* fn bfs: st = [D, sigma, P, queue] *)
RECURSIVE ScanU(_, _, _)
ScanU(st, v, T) ==
  IF T = {} THEN st
  ELSE LET w == MinOf(T)
           vw == st.D[v] + 1
           st1 == IF st.D[w] = INF THEN [st EXCEPT !.D[w] = vw, !.queue = Append(st.queue, w)] ELSE st
           st2 == IF st1.D[w] = vw THEN [st1 EXCEPT !.sigma[w] = st1.sigma[w] + st1.sigma[v], !.P[w] = Append(st1.P[w], v)] ELSE st1
       IN ScanU(st2, v, T \ {w})

PopU ==
  /\ phase = "search" /\ ~Weighted /\ queue # <<>>
  /\ LET v == Head(queue)
         st == ScanU([D |-> D, sigma |-> sigma, P |-> P, queue |-> Tail(queue)], v, Succs(v))
     IN /\ S' = Append(S, v)
        /\ D' = st.D /\ sigma' = st.sigma /\ P' = st.P /\ queue' = st.queue
  /\ UNCHANGED <<g, src, seen, fringe, cnt, phase, pos, delta>>

EndSearch ==
  /\ phase = "search" /\ fringe = {} /\ queue = <<>>
  /\ phase' = "accumulate" /\ pos' = Len(S)
  /\ UNCHANGED <<g, src, D, seen, sigma, P, fringe, queue, S, cnt, delta>>

(* one `while let Some(w) = S.next()` iteration of accumulate_betweenness *)
RECURSIVE Spread(_, _, _)
Spread(dl, coeff, ps) ==
  IF ps = <<>> THEN dl
  ELSE Spread([dl EXCEPT ![Head(ps)] = RatAdd(dl[Head(ps)], RatMul(<<sigma[Head(ps)], 1>>, coeff))], coeff, Tail(ps))

Accumulate ==
  /\ phase = "accumulate" /\ pos >= 1
  /\ LET w == S[pos]
         coeff == RatMul(RatAdd(<<1, 1>>, delta[w]), <<1, sigma[w]>>)
     IN delta' = Spread(delta, coeff, P[w])
  /\ pos' = pos - 1
  /\ UNCHANGED <<g, src, D, seen, sigma, P, fringe, queue, S, cnt, phase>>

Finish ==
  /\ phase = "accumulate" /\ pos = 0
  /\ phase' = "done"
  /\ UNCHANGED <<g, src, D, seen, sigma, P, fringe, queue, S, cnt, pos, delta>>

Next == PopW \/ PopU \/ EndSearch \/ Accumulate \/ Finish
Spec == Init /\ [][Next]_vars /\ WF_vars(Next)

---------------------------------------------------------------------------
Ref == Dist(g, Weighted, src)
SPs == ShortestPathsFrom(g, Weighted, src, Ref)
Tight(t) == {u \in InNbrs(g, t) : Ref[u] < INF /\ Ref[u] + StepW(g, Weighted, u, t) = Ref[t]}
(* sigma is k times the number of shortest paths, k = sigma[src] (2 in the weighted search, 1 in bfs) *)
SearchCorrect ==
  phase # "search" =>
    /\ \A v \in 1..N : D[v] = Ref[v]
    /\ \A v \in 1..N : sigma[v] = sigma[src] * Cardinality(SPs[v])
    /\ \A v \in 1..N : v # src => (Range(P[v]) = Tight(v) /\ Len(P[v]) = Cardinality(Tight(v)))
    /\ Range(S) = {v \in 1..N : Ref[v] < INF} /\ Len(S) = Cardinality(Range(S))
    /\ \A i \in 1..(Len(S) - 1) : D[S[i]] <= D[S[i + 1]]

(* the source's share of the raw betweenness of v *)
Share(v) ==
  SumRats({t \in 1..N : t # src /\ t # v /\ SPs[t] # {}},
          LAMBDA t : Frac(Cardinality({p \in SPs[t] : \E i \in 2..(Len(p) - 1) : p[i] = v}), Cardinality(SPs[t])))

DependencyCorrect == phase = "done" => \A v \in 1..N : v # src => delta[v] = Share(v)

Terminates == <>(phase = "done")

W12 == {1, 2}
W123 == {1, 2, 3}
WNaN == {NaN}
=============================================================================
