---------------------------- MODULE GraphMachine ----------------------------
(***************************************************************************)
(* The mutation state machine of one graphrs Graph over the abstract rules *)
(* of GraphRules, with the invariants and action properties of C01.        *)
(***************************************************************************)
EXTENDS GraphRules

(* The state machine: one graph, mutated by add_node / add_edge.           *)
(* Batches are folds of these steps (AddEdgesRule) and are exercised in    *)
(* the conformance traces.                                                 *)

CONSTANTS NameU,      \* universe of node names (integers)
          WeightU,    \* universe of weights (integers, may contain NaN)
          AttrU,      \* universe of node attribute tags
          EdgeAttrU,  \* universe of edge attribute tags
          SpecsU,     \* set of GraphSpecs records explored
          MaxEdges    \* bound on the number of stored edges (state constraint)

VARIABLES g, res, last

vars == <<g, res, last>>

Init == /\ \E s \in SpecsU : g = EmptyGraph(s)
        /\ res = "Ok"
        /\ last = [k |-> "new"]

AddNode(n, a) ==
  /\ g' = AddNodeRule(g, n, a)
  /\ res' = "Ok"
  /\ last' = [k |-> "add_node", n |-> n, a |-> a]

AddEdge(e) ==
  LET r == AddEdgeRule(g, e) IN
  /\ g' = r.g
  /\ res' = r.res
  /\ last' = [k |-> "add_edge", e |-> e]

Next == \/ \E n \in NameU, a \in AttrU : AddNode(n, a)
        \/ \E u, v \in NameU, w \in WeightU, a \in EdgeAttrU : AddEdge([u |-> u, v |-> v, w |-> w, a |-> a])

Spec == Init /\ [][Next]_vars

Bounded == NumEdges(g) <= MaxEdges

(* Invariants and action properties of C01 *)
InvWellFormed == WellFormed(g)

IsPrefixSeq(s, t) == Len(s) <= Len(t) /\ \A i \in DOMAIN s : s[i] = t[i]

RejectedChangesNothing == [][res' # "Ok" => g' = g]_vars
NamesOnlyAppend == [][IsPrefixSeq(NameSeq(g), NameSeq(g'))]_vars
SpecsNeverChange == [][g'.specs = g.specs]_vars
(* an edge insertion never removes or reorders existing edges of another pair,
   and within a pair only appends (multi), replaces (KeepLast) or keeps *)
EdgesMonotone ==
  [][\A k \in Keys(g) :
        /\ k \in Keys(g')
        /\ \/ g'.edges[k] = g.edges[k]
           \/ (g.specs.multi /\ Len(g'.edges[k]) = Len(g.edges[k]) + 1
                             /\ IsPrefixSeq(g.edges[k], g'.edges[k]))
           \/ (~g.specs.multi /\ g.specs.dedupe = "KeepLast" /\ Len(g'.edges[k]) = 1)]_vars
=============================================================================
