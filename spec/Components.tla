----------------------------- MODULE Components -----------------------------
(***************************************************************************)
(* C10: connected / weakly connected / strongly connected components as    *)
(* the quotient of the node set by the right reachability relation, and    *)
(* the contracts of breadth_first_search and bfs_equal_size_partitions.    *)
(***************************************************************************)
EXTENDS Centrality

(* closure under "adjacent in either direction" *)
RECURSIVE WeakFrom(_, _)
WeakFrom(g, S) ==
  LET T == S \cup UNION {NeighborNames(g, x) : x \in S} IN IF T = S THEN S ELSE WeakFrom(g, T)

ReachTable(g) == Strict([n \in Names(g) |-> Reach(g, n)])

(* the three families of components, as sets of sets of names *)
ConnectedComponents(g) == {Reach(g, n) : n \in Names(g)}            \* undirected graphs
WeakComponents(g) == {WeakFrom(g, {n}) : n \in Names(g)}
StrongComponents(g) ==
  Only({ {{m \in R[n] : n \in R[m]} : n \in Names(g)} : R \in {ReachTable(g)} })

IsPartitionOfNodes(g, fam) ==
  /\ \A c \in fam : c # {} /\ c \subseteq Names(g)
  /\ \A c, d \in fam : c # d => c \cap d = {}
  /\ UNION fam = Names(g)

(* a logged family: sequence of sequences of names *)
FamilyOf(v) == {Range(v[i]) : i \in DOMAIN v}

FamilyIs(ans, needDirected, g, expected) ==
  IF g.specs.directed # needDirected THEN ans.e = "WrongMethod"
  ELSE /\ ans.e = ""
       /\ FamilyOf(ans.v) = expected
       /\ Len(ans.v) = Cardinality(expected)                 \* each component exactly once
       /\ \A i \in DOMAIN ans.v : Len(ans.v[i]) = Cardinality(Range(ans.v[i])) /\ ans.v[i] # <<>>
       /\ IsPartitionOfNodes(g, FamilyOf(ans.v))

ComponentsChecks(g, a) ==
  <<
    <<"connected_components", FamilyIs(a.cc, FALSE, g, ConnectedComponents(g))>>,
    <<"number_of_connected_components",
        IF g.specs.directed THEN a.ncc.e = "WrongMethod"
        ELSE a.ncc.e = "" /\ a.ncc.v = Cardinality(ConnectedComponents(g))>>,
    <<"node_connected_component", \A i \in DOMAIN a.node_cc :
        LET x == a.node_cc[i] IN
        IF g.specs.directed THEN x.ans.e = "WrongMethod"
        ELSE x.ans.e = "" /\ Range(x.ans.v) = Reach(g, x.n) /\ Len(x.ans.v) = Cardinality(Reach(g, x.n))>>,
    (* repeated calls: the routines iterate hash sets, whose order differs from call to call *)
    <<"weakly_connected_components", \A W \in {WeakComponents(g)} :
        \A i \in DOMAIN a.wcc_runs : FamilyIs(a.wcc_runs[i], TRUE, g, W)>>,
    <<"strongly_connected_components", \A S \in {StrongComponents(g)} :
        \A i \in DOMAIN a.scc_runs : FamilyIs(a.scc_runs[i], TRUE, g, S)>>,
    <<"breadth_first_search", \A i \in DOMAIN a.bfs :
        LET x == a.bfs[i] IN
        /\ x.v # <<>> /\ x.v[1] = x.n
        /\ Range(x.v) = Reach(g, x.n) /\ Len(x.v) = Cardinality(Reach(g, x.n))>>,
    <<"bfs_equal_size_partitions", \A i \in DOMAIN a.parts :
        LET x == a.parts[i]
            n == Len(g.nodes)
        IN /\ x.e = ""
           /\ Len(x.v) = x.k
           /\ \A j \in DOMAIN x.v : Len(x.v[j]) <= (n \div x.k) + 1
           /\ \A m \in Names(g) :
                 Cardinality({j \in DOMAIN x.v : \E p \in DOMAIN x.v[j] : x.v[j][p] = m}) = 1
           /\ SumSeq([j \in 1..Len(x.v) |-> Len(x.v[j])]) = n>>
  >>
=============================================================================
