----------------------------- MODULE GraphStore -----------------------------
(***************************************************************************)
(* The implementation-shaped store of a graphrs Graph: the twelve private  *)
(* indexes, what each must contain for a given abstract state (C02), and   *)
(* what the traversal indexes must contain (C03).                          *)
(*                                                                         *)
(*   idx    nodes_map      name -> position (0-based)                      *)
(*   rev    nodes_map_rev  position -> [name, attr]                        *)
(*   vec    nodes_vec      sequence of [name, attr]                        *)
(*   edgesN edges          name-pair key -> edge list                      *)
(*   edgesI edges_map      position-pair key -> edge list                  *)
(*   succN / succI / succV successors by name / by position / with weights *)
(*   predN / predI / predV predecessors (directed graphs only)             *)
(*                                                                         *)
(* Part 1 (this file, first half): the *derived* view - every index as a   *)
(* function of the abstract state.  Used by the trace monitor on the hook  *)
(* snapshots.                                                              *)
(* Part 2: the *update rules* as the library applies them (creation.rs),   *)
(* as a state machine over a store record; TLC checks that the rules keep  *)
(* the store equal to the derived view (module MCGraphStore).              *)
(***************************************************************************)
EXTENDS TraceLib

---------------------------------------------------------------------------
(* Adjacency of the abstract state *)

SuccNames(g, u) ==
  IF g.specs.directed THEN {k[2] : k \in {x \in Keys(g) : x[1] = u}}
  ELSE {k[2] : k \in {x \in Keys(g) : x[1] = u}} \cup {k[1] : k \in {x \in Keys(g) : x[2] = u}}

PredNames(g, v) ==
  IF g.specs.directed THEN {k[1] : k \in {x \in Keys(g) : x[2] = v}} ELSE {}

NeighborNames(g, u) == SuccNames(g, u) \cup PredNames(g, u)

P0(g, n) == Pos(g, n) - 1         \* 0-based position, as the library counts

IdxKey(g, k) ==
  LET i == P0(g, k[1])
      j == P0(g, k[2])
  IN IF g.specs.directed \/ i <= j THEN <<i, j>> ELSE <<j, i>>

MinOf(S) == CHOOSE x \in S : \A y \in S : x <= y

(* least weight among the edges currently stored between u and v *)
PairMinW(g, u, v) == LET es == EdgesAt(g, u, v) IN MinOf({es[i].w : i \in DOMAIN es})

---------------------------------------------------------------------------
(* Part 1: checks of a hook snapshot `s` (JSON shape of the harness)       *)
(* against the abstract state g.  Each returns BOOLEAN.                    *)

SnapNodes(g, s) ==
  /\ ToNodes(s.nodes_vec) = g.nodes
  /\ Range(s.nodes_map) = {<<g.nodes[i].name, i - 1>> : i \in DOMAIN g.nodes}
  /\ Len(s.nodes_map) = Len(g.nodes)
  /\ Range(s.nodes_map_rev) = {<<i - 1, g.nodes[i].name, g.nodes[i].attr>> : i \in DOMAIN g.nodes}
  /\ Len(s.nodes_map_rev) = Len(g.nodes)

SnapEdgesN(g, s) ==
  /\ {<<s.edges[i][1], s.edges[i][2]>> : i \in DOMAIN s.edges} = Keys(g)
  /\ Len(s.edges) = Cardinality(Keys(g))
  /\ \A i \in DOMAIN s.edges :
        LET k == <<s.edges[i][1], s.edges[i][2]>>
        IN k \in Keys(g) => s.edges[i][3] = FlatAt(g, k)

SnapEdgesI(g, s) ==
  /\ {<<s.edges_map[i][1], s.edges_map[i][2]>> : i \in DOMAIN s.edges_map} = {IdxKey(g, k) : k \in Keys(g)}
  /\ Len(s.edges_map) = Cardinality(Keys(g))
  /\ \A i \in DOMAIN s.edges_map :
        LET ik == <<s.edges_map[i][1], s.edges_map[i][2]>>
        IN (ik[1] + 1 \in DOMAIN g.nodes /\ ik[2] + 1 \in DOMAIN g.nodes) =>
             LET k == Key(g, g.nodes[ik[1] + 1].name, g.nodes[ik[2] + 1].name)
             IN k \in Keys(g) => s.edges_map[i][3] = FlatAt(g, k)

(* name-keyed adjacency maps: absent key = empty set *)
NameMapOK(m, F(_), names) ==
  /\ \A i \in DOMAIN m : m[i][1] \in names /\ Range(m[i][2]) = F(m[i][1]) /\ Len(m[i][2]) = Cardinality(F(m[i][1]))
  /\ \A n \in names : F(n) # {} => \E i \in DOMAIN m : m[i][1] = n

SnapAdjN(g, s) ==
  /\ NameMapOK(s.succ, LAMBDA n : SuccNames(g, n), Names(g))
  /\ NameMapOK(s.pred, LAMBDA n : PredNames(g, n), Names(g))

SnapAdjI(g, s) ==
  LET n == Len(g.nodes)
      SuccI(i) == {P0(g, x) : x \in SuccNames(g, g.nodes[i + 1].name)}
      PredI(i) == {P0(g, x) : x \in PredNames(g, g.nodes[i + 1].name)}
  IN /\ NameMapOK(s.succ_map, SuccI, 0..(n - 1))
     /\ NameMapOK(s.pred_map, PredI, 0..(n - 1))

(* traversal lists: neighbour sets (C03 first half) *)
VecNbrs(l) == {l[j][1] : j \in DOMAIN l}
SnapVecSets(g, s) ==
  LET n == Len(g.nodes) IN
  /\ Len(s.succ_vec) = n /\ Len(s.pred_vec) = n
  /\ \A i \in 1..n :
       /\ VecNbrs(s.succ_vec[i]) = {P0(g, x) : x \in SuccNames(g, g.nodes[i].name)}
       /\ VecNbrs(s.pred_vec[i]) = {P0(g, x) : x \in PredNames(g, g.nodes[i].name)}

(* traversal lists: the weight used for a pair is the least stored weight (C03 second half) *)
VecMinW(l, j) == MinOf({l[x][2] : x \in {y \in DOMAIN l : l[y][1] = j}})
SnapVecWeights(g, s) ==
  LET n == Len(g.nodes) IN
  (Len(s.succ_vec) = n /\ Len(s.pred_vec) = n) =>
  \A i \in 1..n :
     LET u == g.nodes[i].name IN
     /\ \A j \in VecNbrs(s.succ_vec[i]) :
          (j + 1 \in 1..n /\ HasPair(g, u, g.nodes[j + 1].name)) =>
             VecMinW(s.succ_vec[i], j) = PairMinW(g, u, g.nodes[j + 1].name)
     /\ \A j \in VecNbrs(s.pred_vec[i]) :
          (j + 1 \in 1..n /\ HasPair(g, g.nodes[j + 1].name, u)) =>
             VecMinW(s.pred_vec[i], j) = PairMinW(g, g.nodes[j + 1].name, u)

---------------------------------------------------------------------------
(* Part 2: the update rules of creation.rs over a store record.            *)
(*                                                                         *)
(* st.idx    name -> 0-based position            (nodes_map)               *)
(* st.rev    0-based position -> [name, attr]    (nodes_map_rev)           *)
(* st.vec    sequence of [name, attr]            (nodes_vec)               *)
(* st.edgesN name key -> sequence of [u,v,w,a]   (edges)                   *)
(* st.edgesI position key -> the same sequence   (edges_map)               *)
(* st.succN / st.predN   name -> set of names    (only names that got one) *)
(* st.succI / st.predI   position -> set of positions (every position)     *)
(* st.succV / st.predV   per position a sequence of [n, w]                 *)
(*                                                                         *)
(* VecRule selects how add_to_adjacency_vec treats an edge whose pair      *)
(* already exists:                                                         *)
(*   "min_always"  keep the smaller weight whatever the policy (the code   *)
(*                 as pinned; violates C03 under KeepFirst / KeepLast)     *)
(*   "policy"      multi-edge: keep the smaller; KeepLast: take the new    *)
(*                 weight; KeepFirst / Error: keep the stored weight; and  *)
(*                 every entry for the neighbour is updated (an undirected *)
(*                 self-loop is listed twice: TLC shows that updating only *)
(*                 the first entry leaves the second one stale)            *)

EmptyStore ==
  [idx |-> <<>>, rev |-> <<>>, vec |-> <<>>, edgesN |-> <<>>, edgesI |-> <<>>,
   succN |-> <<>>, succI |-> <<>>, succV |-> <<>>, predN |-> <<>>, predI |-> <<>>, predV |-> <<>>]

Put(f, k, v) == (k :> v) @@ f                                    \* insert or overwrite
AddTo(f, k, x) == IF k \in DOMAIN f THEN [f EXCEPT ![k] = @ \cup {x}] ELSE (k :> {x}) @@ f

StoreAddNode(st, n, a) ==
  IF n \in DOMAIN st.idx THEN
       LET i == st.idx[n] IN
       [st EXCEPT !.vec = [@ EXCEPT ![i + 1] = [name |-> n, attr |-> a]],
                  !.rev = Put(@, i, [name |-> n, attr |-> a])]
  ELSE LET i == Len(st.vec) IN
       [st EXCEPT !.idx = Put(@, n, i),
                  !.rev = Put(@, i, [name |-> n, attr |-> a]),
                  !.vec = Append(@, [name |-> n, attr |-> a]),
                  !.succI = Put(@, i, {}),
                  !.predI = Put(@, i, {}),
                  !.succV = Append(@, <<>>),
                  !.predV = Append(@, <<>>)]

StoreHasEdgeI(st, directed, i, j) ==
  LET k == IF directed \/ i <= j THEN <<i, j>> ELSE <<j, i>> IN k \in DOMAIN st.edgesI

(* add_to_adjacency_vec *)
VecAdd(rule, specs, v, i, j, w, exists) ==
  IF ~exists THEN [v EXCEPT ![i + 1] = Append(@, [n |-> j, w |-> w])]
  ELSE LET l == v[i + 1] IN
       IF rule = "min_always" THEN
            (* the code as pinned: only the first entry for j, and always the minimum *)
            LET p == CHOOSE x \in DOMAIN l : l[x].n = j /\ \A y \in DOMAIN l : l[y].n = j => x <= y
            IN IF w < l[p].w THEN [v EXCEPT ![i + 1] = [@ EXCEPT ![p] = [n |-> j, w |-> w]]] ELSE v
       ELSE (* every entry for j (an undirected self-loop has two), by policy *)
            LET takeNew(old) == IF specs.multi THEN w < old ELSE specs.dedupe = "KeepLast"
            IN [v EXCEPT ![i + 1] = [x \in DOMAIN l |->
                                       IF l[x].n = j /\ takeNew(l[x].w) THEN [n |-> j, w |-> w] ELSE l[x]]]

(* add_edge; e = [u, v, w, a].  Returns [res, st] *)
StoreAddEdge(rule, st, specs, e) ==
  IF ~specs.loops /\ e.u = e.v THEN
       IF specs.loopfalse = "Error" THEN [res |-> "SelfLoopsFound", st |-> st] ELSE [res |-> "Ok", st |-> st]
  ELSE IF specs.missing = "Error" /\ (e.u \notin DOMAIN st.idx \/ e.v \notin DOMAIN st.idx) THEN
       [res |-> "NodeNotFound", st |-> st]
  ELSE
    LET s1 == IF e.u \in DOMAIN st.idx THEN st ELSE StoreAddNode(st, e.u, 0)
        s2 == IF e.v \in DOMAIN s1.idx THEN s1 ELSE StoreAddNode(s1, e.v, 0)
        iu == s2.idx[e.u]
        iv == s2.idx[e.v]
        exists == StoreHasEdgeI(s2, specs.directed, iu, iv)
    IN IF specs.dedupe = "Error" /\ ~specs.multi /\ exists THEN [res |-> "DuplicateEdge", st |-> s2]
       ELSE
         LET swapN == ~specs.directed /\ e.u > e.v                 \* edge.ordered(): by NAME
             ord == IF swapN THEN [u |-> e.v, v |-> e.u, w |-> e.w, a |-> e.a] ELSE e
             swapI == ~specs.directed /\ iu > iv                   \* ordered indexes: by POSITION
             ou == IF swapI THEN iv ELSE iu
             ov == IF swapI THEN iu ELSE iv
             rec == <<ord.u, ord.v, ord.w, ord.a>>
             kN == <<ord.u, ord.v>>
             kI == <<ou, ov>>
             s3 == [s2 EXCEPT !.succN = AddTo(@, e.u, e.v),
                              !.succI = AddTo(@, iu, iv),
                              !.succV = VecAdd(rule, specs, @, ou, ov, e.w, exists)]
             s4 == IF specs.directed
                     THEN [s3 EXCEPT !.predN = AddTo(@, e.v, e.u),
                                     !.predI = AddTo(@, iv, iu),
                                     !.predV = VecAdd(rule, specs, @, ov, ou, e.w, exists)]
                     ELSE [s3 EXCEPT !.succN = AddTo(@, e.v, e.u),
                                     !.succI = AddTo(@, iv, iu),
                                     !.succV = VecAdd(rule, specs, @, ov, ou, e.w, exists)]
             s5 == IF specs.multi
                     THEN [s4 EXCEPT !.edgesN = IF kN \in DOMAIN @ THEN [@ EXCEPT ![kN] = Append(@, rec)] ELSE Put(@, kN, <<rec>>),
                                     !.edgesI = IF kI \in DOMAIN @ THEN [@ EXCEPT ![kI] = Append(@, rec)] ELSE Put(@, kI, <<rec>>)]
                   ELSE IF ~StoreHasEdgeI(s4, specs.directed, ou, ov) \/ specs.dedupe = "KeepLast"
                     THEN [s4 EXCEPT !.edgesN = Put(@, kN, <<rec>>), !.edgesI = Put(@, kI, <<rec>>)]
                   ELSE s4
         IN [res |-> "Ok", st |-> s5]

(* The store in the JSON shape of a hook snapshot, so that the same Snap*   *)
(* predicates judge recorded snapshots and model states.                    *)
SeqOfSet(S) ==
  LET RECURSIVE R(_)
      R(T) == IF T = {} THEN <<>> ELSE LET x == CHOOSE y \in T : TRUE IN <<x>> \o R(T \ {x})
  IN R(S)

StoreToSnap(st) ==
  [nodes_map |-> SeqOfSet({<<n, st.idx[n]>> : n \in DOMAIN st.idx}),
   nodes_map_rev |-> SeqOfSet({<<i, st.rev[i].name, st.rev[i].attr>> : i \in DOMAIN st.rev}),
   nodes_vec |-> [i \in 1..Len(st.vec) |-> <<st.vec[i].name, st.vec[i].attr>>],
   edges |-> SeqOfSet({<<k[1], k[2], st.edgesN[k]>> : k \in DOMAIN st.edgesN}),
   edges_map |-> SeqOfSet({<<k[1], k[2], st.edgesI[k]>> : k \in DOMAIN st.edgesI}),
   succ |-> SeqOfSet({<<n, SeqOfSet(st.succN[n])>> : n \in DOMAIN st.succN}),
   succ_map |-> SeqOfSet({<<i, SeqOfSet(st.succI[i])>> : i \in DOMAIN st.succI}),
   succ_vec |-> [i \in 1..Len(st.succV) |-> [j \in 1..Len(st.succV[i]) |-> <<st.succV[i][j].n, st.succV[i][j].w>>]],
   pred |-> SeqOfSet({<<n, SeqOfSet(st.predN[n])>> : n \in DOMAIN st.predN}),
   pred_map |-> SeqOfSet({<<i, SeqOfSet(st.predI[i])>> : i \in DOMAIN st.predI}),
   pred_vec |-> [i \in 1..Len(st.predV) |-> [j \in 1..Len(st.predV[i]) |-> <<st.predV[i][j].n, st.predV[i][j].w>>]]]

(* C02: all indexes describe the abstract state g *)
Coherent(g, s) == SnapNodes(g, s) /\ SnapEdgesN(g, s) /\ SnapEdgesI(g, s) /\ SnapAdjN(g, s) /\ SnapAdjI(g, s)
(* C03: the traversal lists hold the stored neighbours with the least stored weight *)
AdjMatches(g, s) == SnapVecSets(g, s) /\ SnapVecWeights(g, s)
=============================================================================
