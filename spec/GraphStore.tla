----------------------------- MODULE GraphStore -----------------------------
(***************************************************************************)
(* The implementation-shaped store of a graphrs Graph: the twelve private  *)
(* indexes, what each must contain for a given abstract state (C02), and   *)
(* what the traversal indexes must contain (C03).                          *)
(*                                                                         *)
(*   idx    nodes_map      name -> position (0-based)                      *)
(*   rev    nodes_map_rev  position -> [name, attr]                        *)
(*   vec    nodes_vec      sequence of [name, attr]                        *)
(*   edgesN edges          name-pair key -> edge list                      *)
(*   edgesI edges_map      position-pair key -> edge list                  *)
(*   succN / succI / succV successors by name / by position / with weights *)
(*   predN / predI / predV predecessors (directed graphs only)             *)
(*                                                                         *)
(* Part 1 (this file, first half): the *derived* view - every index as a   *)
(* function of the abstract state.  Used by the trace monitor on the hook  *)
(* snapshots.                                                              *)
(* Part 2: the *update rules* as the library applies them (creation.rs),   *)
(* as a state machine over a store record; TLC checks that the rules keep  *)
(* the store equal to the derived view (module MCGraphStore).              *)
(***************************************************************************)
EXTENDS TraceLib

---------------------------------------------------------------------------
(* Adjacency of the abstract state *)

SuccNames(g, u) ==
  IF g.specs.directed THEN {k[2] : k \in {x \in Keys(g) : x[1] = u}}
  ELSE {k[2] : k \in {x \in Keys(g) : x[1] = u}} \cup {k[1] : k \in {x \in Keys(g) : x[2] = u}}

PredNames(g, v) ==
  IF g.specs.directed THEN {k[1] : k \in {x \in Keys(g) : x[2] = v}} ELSE {}

NeighborNames(g, u) == SuccNames(g, u) \cup PredNames(g, u)

P0(g, n) == Pos(g, n) - 1         \* 0-based position, as the library counts

IdxKey(g, k) ==
  LET i == P0(g, k[1])
      j == P0(g, k[2])
  IN IF g.specs.directed \/ i <= j THEN <<i, j>> ELSE <<j, i>>

MinOf(S) == CHOOSE x \in S : \A y \in S : x <= y

(* least weight among the edges currently stored between u and v *)
PairMinW(g, u, v) == LET es == EdgesAt(g, u, v) IN MinOf({es[i].w : i \in DOMAIN es})

---------------------------------------------------------------------------
(* Part 1: checks of a hook snapshot `s` (JSON shape of the harness)       *)
(* against the abstract state g.  Each returns BOOLEAN.                    *)

SnapNodes(g, s) ==
  /\ ToNodes(s.nodes_vec) = g.nodes
  /\ Range(s.nodes_map) = {<<g.nodes[i].name, i - 1>> : i \in DOMAIN g.nodes}
  /\ Len(s.nodes_map) = Len(g.nodes)
  /\ Range(s.nodes_map_rev) = {<<i - 1, g.nodes[i].name, g.nodes[i].attr>> : i \in DOMAIN g.nodes}
  /\ Len(s.nodes_map_rev) = Len(g.nodes)

SnapEdgesN(g, s) ==
  /\ {<<s.edges[i][1], s.edges[i][2]>> : i \in DOMAIN s.edges} = Keys(g)
  /\ Len(s.edges) = Cardinality(Keys(g))
  /\ \A i \in DOMAIN s.edges :
        LET k == <<s.edges[i][1], s.edges[i][2]>>
        IN k \in Keys(g) => s.edges[i][3] = FlatAt(g, k)

SnapEdgesI(g, s) ==
  /\ {<<s.edges_map[i][1], s.edges_map[i][2]>> : i \in DOMAIN s.edges_map} = {IdxKey(g, k) : k \in Keys(g)}
  /\ Len(s.edges_map) = Cardinality(Keys(g))
  /\ \A i \in DOMAIN s.edges_map :
        LET ik == <<s.edges_map[i][1], s.edges_map[i][2]>>
        IN (ik[1] + 1 \in DOMAIN g.nodes /\ ik[2] + 1 \in DOMAIN g.nodes) =>
             LET k == Key(g, g.nodes[ik[1] + 1].name, g.nodes[ik[2] + 1].name)
             IN k \in Keys(g) => s.edges_map[i][3] = FlatAt(g, k)

(* name-keyed adjacency maps: absent key = empty set *)
NameMapOK(m, F(_), names) ==
  /\ \A i \in DOMAIN m : m[i][1] \in names /\ Range(m[i][2]) = F(m[i][1]) /\ Len(m[i][2]) = Cardinality(F(m[i][1]))
  /\ \A n \in names : F(n) # {} => \E i \in DOMAIN m : m[i][1] = n

SnapAdjN(g, s) ==
  /\ NameMapOK(s.succ, LAMBDA n : SuccNames(g, n), Names(g))
  /\ NameMapOK(s.pred, LAMBDA n : PredNames(g, n), Names(g))

SnapAdjI(g, s) ==
  LET n == Len(g.nodes)
      SuccI(i) == {P0(g, x) : x \in SuccNames(g, g.nodes[i + 1].name)}
      PredI(i) == {P0(g, x) : x \in PredNames(g, g.nodes[i + 1].name)}
  IN /\ NameMapOK(s.succ_map, SuccI, 0..(n - 1))
     /\ NameMapOK(s.pred_map, PredI, 0..(n - 1))

(* traversal lists: neighbour sets (C03 first half) *)
VecNbrs(l) == {l[j][1] : j \in DOMAIN l}
SnapVecSets(g, s) ==
  LET n == Len(g.nodes) IN
  /\ Len(s.succ_vec) = n /\ Len(s.pred_vec) = n
  /\ \A i \in 1..n :
       /\ VecNbrs(s.succ_vec[i]) = {P0(g, x) : x \in SuccNames(g, g.nodes[i].name)}
       /\ VecNbrs(s.pred_vec[i]) = {P0(g, x) : x \in PredNames(g, g.nodes[i].name)}

(* traversal lists: the weight used for a pair is the least stored weight (C03 second half) *)
VecMinW(l, j) == MinOf({l[x][2] : x \in {y \in DOMAIN l : l[y][1] = j}})
SnapVecWeights(g, s) ==
  LET n == Len(g.nodes) IN
  (Len(s.succ_vec) = n /\ Len(s.pred_vec) = n) =>
  \A i \in 1..n :
     LET u == g.nodes[i].name IN
     /\ \A j \in VecNbrs(s.succ_vec[i]) :
          (j + 1 \in 1..n /\ HasPair(g, u, g.nodes[j + 1].name)) =>
             VecMinW(s.succ_vec[i], j) = PairMinW(g, u, g.nodes[j + 1].name)
     /\ \A j \in VecNbrs(s.pred_vec[i]) :
          (j + 1 \in 1..n /\ HasPair(g, g.nodes[j + 1].name, u)) =>
             VecMinW(s.pred_vec[i], j) = PairMinW(g, g.nodes[j + 1].name, u)
=============================================================================
