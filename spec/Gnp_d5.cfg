SPECIFICATION Spec
CONSTANTS
  N = 5
  Directed = TRUE
  Variant = "published"
INVARIANT ValidPairs
INVARIANT AllNextReachable
INVARIANT SlotCounter
INVARIANT EndsWhenExhausted
PROPERTY Increasing
PROPERTY NoRepeat
CHECK_DEADLOCK FALSE
