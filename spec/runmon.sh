#!/bin/sh
# usage: runmon.sh <Module> <trace> <metadir>
export JAVA_TOOL_OPTIONS="-Xss1g -XX:ParallelGCThreads=2"
cd /verif/spec && TRACE=$2 exec timeout 3000 tlc -workers 1 -metadir $3 -cleanup -noGenerateSpecTE -config $1.cfg $1.tla
