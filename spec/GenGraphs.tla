----------------------------- MODULE GenGraphs -----------------------------
(***************************************************************************)
(* Direction 2, input side: TLC enumerates EVERY graph of a small family   *)
(* (all subsets of the admissible pairs on N nodes, every assignment of    *)
(* weights from WSet) and prints each as a case                            *)
(*   CASE {"specs":..,"ops":[add_nodes .., add_edges ..],"tag":"tlc"}      *)
(* that the harness builds with the real library and observes.             *)
(* Parameters come from the environment:                                   *)
(*   GEN_N nodes, GEN_DIRECTED 0/1, GEN_LOOPS 0/1, GEN_W nan|w12|w123|w012|w18|cubes, *)
(*   GEN_MAXE largest number of edges, GEN_REV 0/1 (insert the nodes in    *)
(*   descending name order, so that position order # name order).          *)
(***************************************************************************)
EXTENDS Integers, Sequences, FiniteSets, TLC, Json, IOUtils

N == atoi(IOEnv.GEN_N)
Directed == IOEnv.GEN_DIRECTED = "1"
Loops == IOEnv.GEN_LOOPS = "1"
MaxE == atoi(IOEnv.GEN_MAXE)
Rev == IOEnv.GEN_REV = "1"
WSet == CASE IOEnv.GEN_W = "nan" -> {-1}
          [] IOEnv.GEN_W = "w12" -> {1, 2}
          [] IOEnv.GEN_W = "w123" -> {1, 2, 3}
          [] IOEnv.GEN_W = "w012" -> {0, 1, 2}
          [] IOEnv.GEN_W = "w18" -> {1, 8}
          [] IOEnv.GEN_W = "cubes" -> {1, 8, 27}

VARIABLE x

Pairs == {p \in (1..N) \X (1..N) : (Loops \/ p[1] # p[2]) /\ (Directed \/ p[1] <= p[2])}

SeqOf(S) ==
  LET RECURSIVE R(_)
      R(T) == IF T = {} THEN <<>> ELSE LET e == CHOOSE y \in T : TRUE IN <<e>> \o R(T \ {e})
  IN R(S)

Specs == [directed |-> Directed, multi |-> FALSE, loops |-> Loops,
          dedupe |-> "Error", missing |-> "Create", loopfalse |-> "Error"]

NodeOrder == IF Rev THEN [i \in 1..N |-> <<N + 1 - i, 0>>] ELSE [i \in 1..N |-> <<i, 0>>]

Case(E, wf) ==
  LET es == SeqOf(E) IN
  [specs |-> Specs,
   ops |-> << [k |-> "add_nodes", ns |-> NodeOrder, es |-> <<>>],
              [k |-> "add_edges", ns |-> <<>>,
               es |-> [i \in 1..Len(es) |-> <<es[i][1], es[i][2], wf[es[i]], 0>>]] >>,
   tag |-> "tlc"]

Init == /\ x = 0
        /\ \A E \in {F \in SUBSET Pairs : Cardinality(F) <= MaxE} :
              \A wf \in [E -> WSet] : PrintT("CASE " \o ToJson(Case(E, wf)))
Next == UNCHANGED x
Spec == Init /\ [][Next]_x
=============================================================================
