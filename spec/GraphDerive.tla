----------------------------- MODULE GraphDerive -----------------------------
(***************************************************************************)
(* C15: the derived graphs - get_subgraph, reverse, set_all_edge_weights,  *)
(* to_single_edges - as operators on the abstract state of GraphRules.     *)
(* Each returns [res |-> "Ok" | error kind, g |-> derived graph].          *)
(***************************************************************************)
EXTENDS GraphQuery

RestrictFn(f, S) == [k \in S |-> f[k]]

(* induced subgraph: the nodes of S that exist, original order and attributes;
   exactly the stored edges with both ends in S *)
Subgraph(g, S) ==
  [specs |-> g.specs,
   nodes |-> SelectSeq(g.nodes, LAMBDA n : n.name \in S),
   edges |-> RestrictFn(g.edges, {k \in Keys(g) : k[1] \in S /\ k[2] \in S})]

Reverse(g) ==
  IF ~g.specs.directed THEN [res |-> "WrongMethod", g |-> g]
  ELSE [res |-> "Ok",
        g |-> [g EXCEPT !.edges = [k \in {<<x[2], x[1]>> : x \in Keys(g)} |-> g.edges[<<k[2], k[1]>>]]]]

Reweight(g, w) ==
  [g EXCEPT !.edges = [k \in Keys(g) |-> [j \in 1..Len(g.edges[k]) |-> [w |-> w, a |-> g.edges[k][j].a]]]]

(* one edge per group of parallel edges, weight = the group's sum (NaN if any is NaN);
   edge attributes are lost; the result is a single-edge graph *)
Collapse(g) ==
  IF ~g.specs.multi THEN [res |-> "WrongMethod", g |-> g]
  ELSE [res |-> "Ok",
        g |-> [specs |-> [g.specs EXCEPT !.multi = FALSE],
               nodes |-> g.nodes,
               edges |-> [k \in Keys(g) |->
                            <<[w |-> IF HasNaNAt(g, {k}) THEN NaN ELSE WeightAt(g, {k}), a |-> 0]>>]]]

(* the expected outcome of a derive operation of the harness *)
DeriveRule(g, op) ==
  CASE op.k = "subgraph" -> [res |-> "Ok", g |-> Subgraph(g, Range(op.s))]
    [] op.k = "reverse" -> Reverse(g)
    [] op.k = "set_weights" -> [res |-> "Ok", g |-> Reweight(g, op.w)]
    [] op.k = "to_single" -> Collapse(g)

SameGraph(x, y) == x.specs = y.specs /\ x.nodes = y.nodes /\ x.edges = y.edges
=============================================================================
