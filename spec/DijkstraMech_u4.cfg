SPECIFICATION Spec
CONSTANTS
  N = 4
  Directed = FALSE
  WSet <- W12
  Cutoffs <- C_few
  Buffers = "fresh"
INVARIANTS
  Settled
  AtEnd
  RunAgrees
PROPERTIES
  Monotone
  Terminates
CHECK_DEADLOCK FALSE
