------------------------------ MODULE Community ------------------------------
(***************************************************************************)
(* C12: the partition test and Newman's modularity as an exact rational;   *)
(* C13: the contract of louvain_partitions (what the property promises of  *)
(* the returned levels), judged with exact arithmetic.                     *)
(*                                                                         *)
(* A family is a set of sets of names; logged families are sequences of    *)
(* sequences (each inner sequence a set printed in ascending order).       *)
(* Resolution is a rational <<rn, rd>>.                                    *)
(***************************************************************************)
EXTENDS Cluster

(* pairwise disjoint, only nodes of the graph, covering every node.  The logged
   family is a sequence, so that two equal sets in it count as an overlap. *)
IsPartitionSeq(g, fam) ==
  /\ \A i \in DOMAIN fam : Range(fam[i]) \subseteq Names(g)
  /\ \A i, j \in DOMAIN fam : i # j => Range(fam[i]) \cap Range(fam[j]) = {}
  /\ UNION {Range(fam[i]) : i \in DOMAIN fam} = Names(g)

(* edge mass: number of edges, or total weight *)
Mass(g, weighted, ks) == IF weighted THEN WeightAt(g, ks) ELSE CountAt(g, ks)
OutMass(g, weighted, n) == Mass(g, weighted, OutKeys(g, {n}))
InMass(g, weighted, n) == Mass(g, weighted, InKeys(g, {n}))
DegMass(g, weighted, n) == Mass(g, weighted, IncidentKeys(g, {n})) + Mass(g, weighted, LoopKeys(g, n))

(* Modularity(g, fam, weighted, res): fam a set of sets forming a partition, at least one edge *)
Modularity(g, fam, weighted, res) ==
  LET dir == g.specs.directed
      m == Mass(g, weighted, Keys(g))                               \* = sum of out-degrees = degree sum / 2
      Inside(c) == Mass(g, weighted, {k \in Keys(g) : k[1] \in c /\ k[2] \in c})
      OutSum(c) == SumOver(c, LAMBDA n : IF dir THEN OutMass(g, weighted, n) ELSE DegMass(g, weighted, n))
      InSum(c) == SumOver(c, LAMBDA n : IF dir THEN InMass(g, weighted, n) ELSE DegMass(g, weighted, n))
      norm == IF dir THEN m * m ELSE 4 * m * m
      Term(c) == RatAdd(Frac(Inside(c), m), Frac(-(res[1] * OutSum(c) * InSum(c)), res[2] * norm))
  IN SumRats(fam, Term)

FamSet(fam) == {Range(fam[i]) : i \in DOMAIN fam}

(* a <= b for rationals with positive denominators, without cross-multiplying (TLC's integers are
   32-bit and modularity denominators reach 4 m^2 rd): compare integer parts, then the reciprocals of
   the fractional parts (Euclid) *)
RECURSIVE RatLeqNN(_, _, _, _)
RatLeqNN(p1, q1, p2, q2) ==                     \* p1/q1 <= p2/q2, all >= 0, q1, q2 > 0
  LET i1 == p1 \div q1
      i2 == p2 \div q2
      r1 == p1 % q1
      r2 == p2 % q2
  IN IF i1 # i2 THEN i1 < i2
     ELSE IF r1 = 0 THEN TRUE
     ELSE IF r2 = 0 THEN FALSE
     ELSE RatLeqNN(q2, r2, q1, r1)
RatLeq(a, b) ==
  IF a[1] < 0 /\ b[1] >= 0 THEN TRUE
  ELSE IF a[1] >= 0 /\ b[1] < 0 THEN FALSE
  ELSE IF a[1] >= 0 THEN RatLeqNN(a[1], a[2], b[1], b[2])
  ELSE RatLeqNN(-b[1], b[2], -a[1], a[2])

PartitionChecks(g, a) ==
  <<
    <<"is_partition", \A i \in DOMAIN a.cases :
        LET c == a.cases[i] IN c.is_partition = IsPartitionSeq(g, c.fam)>>,
    <<"modularity", \A i \in DOMAIN a.cases :
        LET c == a.cases[i] IN
        \A j \in DOMAIN c.mods :
           LET q == c.mods[j] IN
           IF ~IsPartitionSeq(g, c.fam) THEN q.ans.e = "NotAPartition"
           ELSE (Keys(g) # {} /\ (q.weighted => ~HasNaNAt(g, Keys(g)))
                   /\ Mass(g, q.weighted, Keys(g)) > 0) =>
                  (q.ans.e = "" /\ RatMatches(q.ans.v, Modularity(g, FamSet(c.fam), q.weighted, q.res)))>>
  >>

---------------------------------------------------------------------------
(* C13 *)

(* every community of the coarser level is a union of communities of the finer one;
   both being partitions of the same set, that is: every fine community lies inside a coarse one *)
Coarsens(fine, coarse) == \A f \in fine : \E c \in coarse : f \subseteq c

Singletons(g) == {{n} : n \in Names(g)}

(* levels: sequence of families (sequences of sequences) *)
LouvainContract(g, weighted, res, levels) ==
  LET L == [i \in DOMAIN levels |-> FamSet(levels[i])] IN
  /\ Len(levels) >= 1
  /\ \A i \in DOMAIN levels :
        /\ IsPartitionSeq(g, levels[i])
        /\ \A j \in DOMAIN levels[i] : levels[i][j] # <<>>
  /\ \A i \in 1..(Len(levels) - 1) : Coarsens(L[i], L[i + 1])

LouvainModularityMonotone(g, weighted, res, levels) ==
  (~g.specs.multi /\ Keys(g) # {} /\ Mass(g, weighted, Keys(g)) > 0) =>
    \A Q \in {Strict([i \in DOMAIN levels |-> Modularity(g, FamSet(levels[i]), weighted, res)])} :
       /\ RatLeq(Modularity(g, Singletons(g), weighted, res), Q[1])
       /\ \A i \in 1..(Len(levels) - 1) : RatLeq(Q[i], Q[i + 1])

LouvainChecks(g, a) ==
  <<
    <<"terminates", \A i \in DOMAIN a.runs : a.runs[i].ans.e # "Hang" /\ a.runs[i].ans.e # "Panic">>,
    <<"levels_are_nested_partitions", \A i \in DOMAIN a.runs :
        LET r == a.runs[i] IN r.ans.e = "" => LouvainContract(g, r.weighted, r.res, r.ans.v)>>,
    <<"modularity_never_decreases", \A i \in DOMAIN a.runs :
        LET r == a.runs[i] IN
        (r.ans.e = "" /\ LouvainContract(g, r.weighted, r.res, r.ans.v)) =>
            LouvainModularityMonotone(g, r.weighted, r.res, r.ans.v)>>,
    <<"communities_is_last_level", \A i \in DOMAIN a.runs :
        LET r == a.runs[i] IN
        (r.ans.e = "" /\ r.comm.e = "" /\ Len(r.ans.v) >= 1) => FamSet(r.comm.v) = FamSet(r.ans.v[Len(r.ans.v)])>>,
    <<"returns_ok_on_graphs_with_edges", \A i \in DOMAIN a.runs :
        Keys(g) # {} => a.runs[i].ans.e \in {"", "Hang", "Panic", "NotRun"}>>   \* NotRun: after five hangs of this run
  >>
=============================================================================
