----------------------------- MODULE MCGraphML -----------------------------
(***************************************************************************)
(* C14 at the design level: for every reachable state of the mutation      *)
(* machine (all 96 GraphSpecs) reading back, with the same specs, the       *)
(* token document that the writer produces gives the graph back (same      *)
(* nodes in order, same directedness, same edges with per-pair order and   *)
(* weights; attributes are not carried by GraphML).                        *)
(***************************************************************************)
EXTENDS GraphMachine, GraphML

InvRoundTrip == RoundTrip(g)

MC_NameU == 1..3
MC_WeightU == {NaN, 1, 2}
MC_AttrU == {0}
MC_EdgeAttrU == {0}
MC_SpecsU == AllSpecs
View == g
=============================================================================
