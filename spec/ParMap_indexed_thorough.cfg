SPECIFICATION Spec
CONSTANTS
  K = 4
  MCItems = 5
  MCMode = "indexed"
INVARIANT TypeOK
INVARIANT RunOnce
INVARIANT BarrierBeforeCombine
INVARIANT PrefixOfSerial
INVARIANT KeyedComplete
INVARIANT FinalIsSerial
PROPERTY Terminates
CHECK_DEADLOCK FALSE
