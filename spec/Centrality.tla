----------------------------- MODULE Centrality -----------------------------
(***************************************************************************)
(* Betweenness (C05) and closeness (C06) centrality as exact rationals     *)
(* over the definitions of Paths.                                          *)
(* A rational is a reduced pair <<p, q>>, q > 0 (TraceLib!Frac).           *)
(***************************************************************************)
EXTENDS Paths

(* addition over the least common denominator (keeps intermediate values small: TLC integers are 32-bit) *)
RatAdd(a, b) ==
  LET gg == GCD(a[2], b[2])
  IN Frac(a[1] * (b[2] \div gg) + b[1] * (a[2] \div gg), (a[2] \div gg) * b[2])
(* cross-cancel before multiplying: TLC integers are 32-bit *)
RatMul(a, b) ==
  LET g1 == GCD(Abs(a[1]), b[2])
      g2 == GCD(Abs(b[1]), a[2])
      d1 == IF g1 = 0 THEN 1 ELSE g1
      d2 == IF g2 = 0 THEN 1 ELSE g2
  IN Frac((a[1] \div d1) * (b[1] \div d2), (a[2] \div d2) * (b[2] \div d1))

SumRats(S, F(_)) ==
  LET RECURSIVE R(_)
      R(T) == IF T = {} THEN <<0, 1>> ELSE LET x == CHOOSE y \in T : TRUE IN RatAdd(F(x), R(T \ {x}))
  IN R(S)

(* sum over ordered pairs (s,t), s # v # t, s # t, of the fraction of shortest
   s-t paths that pass through v *)
PairDependency(SPs, s, t, v) ==
  LET all == SPs[s][t]
      thru == {p \in all : \E i \in 2..(Len(p) - 1) : p[i] = v}
  IN IF all = {} THEN <<0, 1>> ELSE Frac(Cardinality(thru), Cardinality(all))

BetweennessRaw(g, weighted) ==
  LET N == Names(g) IN
  Only({Strict([v \in N |->
                 SumRats({st \in N \X N : st[1] # st[2] /\ st[1] # v /\ st[2] # v},
                         LAMBDA st : PairDependency(SPs, st[1], st[2], v))])
        : SPs \in {AllShortestPaths(g, weighted)}})

(* the library's conventions: not normalised -> halved when undirected;
   normalised -> divided by (n-1)(n-2) when n > 2 (the un-halved sum over ordered pairs) *)
Betweenness(g, weighted, normalized) ==
  LET n == Cardinality(Names(g))
      scale == IF normalized THEN (IF n > 2 THEN <<1, (n - 1) * (n - 2)>> ELSE <<1, 1>>)
               ELSE (IF g.specs.directed THEN <<1, 1>> ELSE <<1, 2>>)
  IN Only({Strict([v \in Names(g) |-> RatMul(raw[v], scale)]) : raw \in {BetweennessRaw(g, weighted)}})

(* closeness of u: (r-1) / sum of distances to u from the r nodes that reach it *)
Closeness(g, weighted, wf) ==
  LET N == Names(g)
      n == Cardinality(N)
  IN Only({Strict([u \in N |->
                 (* incoming distance on directed graphs; ordinary distance on undirected ones *)
                 LET R == {v \in N : D[v][u] < INF}
                     r == Cardinality(R)
                     tot == SumOver(R, LAMBDA v : D[v][u])
                 IN IF tot = 0 \/ n <= 1 THEN <<0, 1>>
                    ELSE IF wf THEN Frac((r - 1) * (r - 1), tot * (n - 1))
                    ELSE Frac(r - 1, tot)])
        : D \in {AllDist(g, weighted)}})

(* a logged centrality map: sequence of <<name, <<p, q>>>>, one entry per node *)
CentralityMapIs(a, g, FF) ==
  \A F \in {FF} :
  /\ Len(a) = Len(g.nodes)
  /\ {a[i][1] : i \in DOMAIN a} = Names(g)
  /\ \A i \in DOMAIN a : a[i][1] \in Names(g) => RatMatches(a[i][2], F[a[i][1]])

(* sanity theorems (module MCPaths): endpoints never count, values >= 0, and on
   unweighted graphs the betweenness values sum to the number of interior
   positions on shortest paths averaged over the paths of each pair *)
BetweennessSane(g, weighted) ==
  \A B \in {BetweennessRaw(g, weighted)} :
     \A v \in Names(g) : B[v][1] >= 0 /\ B[v][2] > 0
=============================================================================
