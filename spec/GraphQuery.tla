----------------------------- MODULE GraphQuery -----------------------------
(***************************************************************************)
(* The answer of every read API of a graphrs Graph as a function of the    *)
(* abstract state (C02), and the counting / degree / density / adjacency-  *)
(* matrix functions with their identities (C09).                           *)
(*                                                                         *)
(* An answer is [e |-> "" | error kind | "None", v |-> value].             *)
(* QueryChecks(g, q) / CountChecks(g, q) take the table `q` logged by the  *)
(* harness for the state g and return a sequence of <<name, BOOLEAN>>.     *)
(***************************************************************************)
EXTENDS GraphStore

AnsIs(a, e, v) == a.e = e /\ (e = "" => a.v = v)
AnsErr(a, e) == a.e = e

KeyLess(a, b) == a[1] < b[1] \/ (a[1] = b[1] /\ a[2] < b[2])

RECURSIVE FlatSeq(_, _)
(* the edges of the keys in S, keys ascending, each key's edges in stored order *)
FlatSeq(g, S) ==
  IF S = {} THEN <<>>
  ELSE LET k == CHOOSE x \in S : \A y \in S : x = y \/ KeyLess(x, y)
       IN FlatAt(g, k) \o FlatSeq(g, S \ {k})

RECURSIVE SumSeq(_)
SumSeq(s) == IF s = <<>> THEN 0 ELSE Head(s) + SumSeq(Tail(s))

SumOver(S, F(_)) ==
  LET RECURSIVE R(_)
      R(T) == IF T = {} THEN 0 ELSE LET x == CHOOSE y \in T : TRUE IN F(x) + R(T \ {x})
  IN R(S)

---------------------------------------------------------------------------
(* Expected answers *)

MissingAny(g, S) == \E n \in S : ~HasNode(g, n)

ExpGetEdge(g, u, v) ==
  IF g.specs.multi THEN [e |-> "WrongMethod", v |-> <<>>]
  ELSE IF MissingAny(g, {u, v}) THEN [e |-> "NodeNotFound", v |-> <<>>]
  ELSE IF ~HasPair(g, u, v) THEN [e |-> "EdgeNotFound", v |-> <<>>]
  ELSE [e |-> "", v |-> FlatAt(g, Key(g, u, v))[1]]

ExpGetEdges(g, u, v) ==
  IF ~g.specs.multi THEN [e |-> "WrongMethod", v |-> <<>>]
  ELSE IF MissingAny(g, {u, v}) THEN [e |-> "NodeNotFound", v |-> <<>>]
  ELSE IF ~HasPair(g, u, v) THEN [e |-> "EdgeNotFound", v |-> <<>>]
  ELSE [e |-> "", v |-> FlatAt(g, Key(g, u, v))]

IncidentKeys(g, S) == {k \in Keys(g) : k[1] \in S \/ k[2] \in S}
InKeys(g, S) == {k \in Keys(g) : k[2] \in S}
OutKeys(g, S) == {k \in Keys(g) : k[1] \in S}

(* guard order of the library: kind first, then names *)
ExpEdgeList(g, S, needDirected, ks) ==
  IF needDirected /\ ~g.specs.directed THEN [e |-> "WrongMethod", v |-> <<>>]
  ELSE IF MissingAny(g, S) THEN [e |-> "NodeNotFound", v |-> <<>>]
  ELSE [e |-> "", v |-> FlatSeq(g, ks)]

ExpNameSet(g, n, needDirected, S) ==
  IF needDirected /\ ~g.specs.directed THEN [e |-> "WrongMethod", v |-> {}]
  ELSE IF ~HasNode(g, n) THEN [e |-> "NodeNotFound", v |-> {}]
  ELSE [e |-> "", v |-> S]

(* a logged name list against an expected set answer: same set, no repeats *)
SetAnsIs(a, x) == a.e = x.e /\ (x.e = "" => (Range(a.v) = x.v /\ Len(a.v) = Cardinality(x.v)))

(* nodes reachable from s along successors (directed) / neighbours (undirected) *)
RECURSIVE ReachFrom(_, _)
ReachFrom(g, S) ==
  LET T == S \cup UNION {SuccNames(g, x) : x \in S} IN IF T = S THEN S ELSE ReachFrom(g, T)
Reach(g, s) == ReachFrom(g, {s})

---------------------------------------------------------------------------
(* Degrees by definition (parallel edges individually, a self-loop counts twice) *)

LoopKeys(g, n) == {k \in Keys(g) : k[1] = n /\ k[2] = n}
CountAt(g, ks) == SumOver(ks, LAMBDA k : Len(g.edges[k]))
WeightAt(g, ks) == SumOver(ks, LAMBDA k : SumSeq([j \in 1..Len(g.edges[k]) |-> g.edges[k][j].w]))
HasNaNAt(g, ks) == \E k \in ks : \E j \in DOMAIN g.edges[k] : g.edges[k][j].w = NaN

Degree(g, n) == CountAt(g, IncidentKeys(g, {n})) + CountAt(g, LoopKeys(g, n))
InDegree(g, n) == CountAt(g, InKeys(g, {n}))
OutDegree(g, n) == CountAt(g, OutKeys(g, {n}))
WDegree(g, n) == WeightAt(g, IncidentKeys(g, {n})) + WeightAt(g, LoopKeys(g, n))
WInDegree(g, n) == WeightAt(g, InKeys(g, {n}))
WOutDegree(g, n) == WeightAt(g, OutKeys(g, {n}))

RatNaN == <<0, 0>>
RatOf(hasNaN, num) == IF hasNaN THEN RatNaN ELSE <<num, 1>>

---------------------------------------------------------------------------
(* C02 *)

PerNodeChecks(g, p) ==
  LET n == p.n
      has == HasNode(g, n)
      loopy == g.specs.directed /\ LoopKeys(g, n) # {}
      expAll == ExpEdgeList(g, {n}, FALSE, IncidentKeys(g, {n}))
  IN
  /\ p.has_node = has
  /\ IF has THEN AnsIs(p.get_node, "", <<n, g.nodes[Pos(g, n)].attr>>) ELSE AnsErr(p.get_node, "None")
  (* all incident edges; on a directed graph a self-loop may be listed once or twice *)
  /\ IF loopy /\ expAll.e = ""
       THEN /\ p.edges_for_node.e = ""
            /\ Range(p.edges_for_node.v) = Range(expAll.v)
            /\ Len(p.edges_for_node.v) \in {Len(expAll.v), Len(expAll.v) + CountAt(g, LoopKeys(g, n))}
       ELSE AnsIs(p.edges_for_node, expAll.e, expAll.v)
  /\ LET x == ExpEdgeList(g, {n}, TRUE, InKeys(g, {n})) IN AnsIs(p.in_edges_for_node, x.e, x.v)
  /\ LET x == ExpEdgeList(g, {n}, TRUE, OutKeys(g, {n})) IN AnsIs(p.out_edges_for_node, x.e, x.v)
  /\ SetAnsIs(p.neighbor_nodes, ExpNameSet(g, n, FALSE, NeighborNames(g, n)))
  /\ SetAnsIs(p.successor_nodes, ExpNameSet(g, n, TRUE, SuccNames(g, n)))
  /\ SetAnsIs(p.predecessor_nodes, ExpNameSet(g, n, TRUE, PredNames(g, n)))
  /\ SetAnsIs(p.successor_node_names, ExpNameSet(g, n, TRUE, SuccNames(g, n)))
  /\ SetAnsIs(p.predecessor_node_names, ExpNameSet(g, n, TRUE, PredNames(g, n)))
  /\ has =>
       /\ p.bfs # <<>> /\ p.bfs[1] = n
       /\ Range(p.bfs) = Reach(g, n) /\ Len(p.bfs) = Cardinality(Reach(g, n))
       /\ Range(p.succ_or_nbrs) = SuccNames(g, n) /\ Len(p.succ_or_nbrs) = Cardinality(SuccNames(g, n))

PerSetChecks(g, p) ==
  LET S == Range(p.s) IN
  /\ p.has_nodes = (S \subseteq Names(g))
  /\ LET x == ExpEdgeList(g, S, FALSE, IncidentKeys(g, S)) IN AnsIs(p.edges_for_nodes, x.e, x.v)
  /\ LET x == ExpEdgeList(g, S, TRUE, InKeys(g, S)) IN AnsIs(p.in_edges_for_nodes, x.e, x.v)
  /\ LET x == ExpEdgeList(g, S, TRUE, OutKeys(g, S)) IN AnsIs(p.out_edges_for_nodes, x.e, x.v)

QueryChecks(g, q) ==
  <<
    <<"all_node_names", q.all_node_names = NameSeq(g)>>,
    <<"get_edge", \A i \in DOMAIN q.get_edge :
         LET x == ExpGetEdge(g, q.get_edge[i][1], q.get_edge[i][2]) IN AnsIs(q.get_edge[i][3], x.e, x.v)>>,
    <<"get_edges", \A i \in DOMAIN q.get_edges :
         LET x == ExpGetEdges(g, q.get_edges[i][1], q.get_edges[i][2]) IN AnsIs(q.get_edges[i][3], x.e, x.v)>>,
    (* pairwise queries are symmetric on undirected graphs, whatever the name / insertion order *)
    <<"undirected_symmetry", ~g.specs.directed =>
         \A i, j \in DOMAIN q.get_edge :
            (q.get_edge[i][1] = q.get_edge[j][2] /\ q.get_edge[i][2] = q.get_edge[j][1]) =>
               /\ q.get_edge[i][3] = q.get_edge[j][3]
               /\ q.get_edges[i][3] = q.get_edges[j][3]>>,
    <<"per_node", \A i \in DOMAIN q.per_node : PerNodeChecks(g, q.per_node[i])>>,
    <<"per_set", \A i \in DOMAIN q.per_set : PerSetChecks(g, q.per_set[i])>>,
    <<"node_by_index", \A i \in DOMAIN q.node_by_index :
         LET p == q.node_by_index[i][1] IN
         IF p + 1 \in DOMAIN g.nodes
           THEN AnsIs(q.node_by_index[i][2], "", <<g.nodes[p + 1].name, g.nodes[p + 1].attr>>)
           ELSE AnsErr(q.node_by_index[i][2], "None")>>,
    <<"successors_map", NameMapOK(q.successors_map, LAMBDA n : SuccNames(g, n), Names(g))>>,
    <<"predecessors_map", NameMapOK(q.predecessors_map, LAMBDA n : PredNames(g, n), Names(g))>>,
    <<"ensure_guards",
         /\ q.ensure_directed = (IF g.specs.directed THEN "" ELSE "WrongMethod")
         /\ q.ensure_undirected = (IF g.specs.directed THEN "WrongMethod" ELSE "")
         /\ q.ensure_not_multi_edges = (IF g.specs.multi THEN "WrongMethod" ELSE "")
         /\ q.ensure_weighted = (IF HasNaNAt(g, Keys(g)) THEN "EdgeWeightNotSpecified" ELSE "")
         /\ q.edges_have_weight = ~HasNaNAt(g, Keys(g))>>
  >>

---------------------------------------------------------------------------
(* C09 *)

OptIs(a, defined, v) == IF defined THEN AnsIs(a, "", v) ELSE AnsErr(a, "None")

MapIs(a, needDirected, g, F(_)) ==
  IF needDirected /\ ~g.specs.directed THEN AnsErr(a, "WrongMethod")
  ELSE /\ a.e = ""
       /\ Len(a.v) = Len(g.nodes)
       /\ {a.v[i][1] : i \in DOMAIN a.v} = Names(g)
       /\ \A i \in DOMAIN a.v : a.v[i][1] \in Names(g) => a.v[i][2] = F(a.v[i][1])

PerNodeCounts(g, p) ==
  LET n == p.n
      has == HasNode(g, n)
      dir == g.specs.directed
  IN
  /\ OptIs(p.degree, has, Degree(g, n))
  /\ OptIs(p.in_degree, has /\ dir, InDegree(g, n))
  /\ OptIs(p.out_degree, has /\ dir, OutDegree(g, n))
  /\ OptIs(p.w_degree, has, RatOf(HasNaNAt(g, IncidentKeys(g, {n})), WDegree(g, n)))
  /\ OptIs(p.w_in_degree, has /\ dir, RatOf(HasNaNAt(g, InKeys(g, {n})), WInDegree(g, n)))
  /\ OptIs(p.w_out_degree, has /\ dir, RatOf(HasNaNAt(g, OutKeys(g, {n})), WOutDegree(g, n)))

(* entries of the adjacency matrix by definition: <<row, col, <<p, q>>>> *)
MatrixEntries(g) ==
  LET val(k) == IF g.edges[k][1].w = NaN THEN <<1, 1>> ELSE <<g.edges[k][1].w, 1>>
      fwd == {<<P0(g, k[1]), P0(g, k[2]), val(k)>> : k \in Keys(g)}
      bwd == {<<P0(g, k[2]), P0(g, k[1]), val(k)>> : k \in Keys(g)}
  IN IF g.specs.directed THEN fwd ELSE fwd \cup bwd

SumCol(a) == SumSeq([i \in 1..Len(a) |-> a[i][2]])

CountChecks(g, q) ==
  LET n == Len(g.nodes)
      m == NumEdges(g)
      dir == g.specs.directed
      anyNaN == HasNaNAt(g, Keys(g))
  IN
  <<
    <<"number_of_nodes", q.number_of_nodes = n>>,
    <<"number_of_edges", q.number_of_edges = m>>,
    <<"size_unweighted", q.size_unweighted = <<m, 1>>>>,
    <<"size_weighted", q.size_weighted = RatOf(anyNaN, WeightAt(g, Keys(g)))>>,
    <<"node_degrees", \A i \in DOMAIN q.per_node : PerNodeCounts(g, q.per_node[i])>>,
    <<"degree_all", MapIs(q.degree_all, FALSE, g, LAMBDA x : Degree(g, x))>>,
    <<"in_degree_all", MapIs(q.in_degree_all, TRUE, g, LAMBDA x : InDegree(g, x))>>,
    <<"out_degree_all", MapIs(q.out_degree_all, TRUE, g, LAMBDA x : OutDegree(g, x))>>,
    <<"w_degree_all", MapIs(q.w_degree_all, FALSE, g,
          LAMBDA x : RatOf(HasNaNAt(g, IncidentKeys(g, {x})), WDegree(g, x)))>>,
    <<"w_in_degree_all", MapIs(q.w_in_degree_all, TRUE, g,
          LAMBDA x : RatOf(HasNaNAt(g, InKeys(g, {x})), WInDegree(g, x)))>>,
    <<"w_out_degree_all", MapIs(q.w_out_degree_all, TRUE, g,
          LAMBDA x : RatOf(HasNaNAt(g, OutKeys(g, {x})), WOutDegree(g, x)))>>,
    (* the handshake identities, stated on the library's own numbers *)
    <<"handshake_degree", q.degree_all.e = "" => SumCol(q.degree_all.v) = 2 * q.number_of_edges>>,
    <<"handshake_in", (dir /\ q.in_degree_all.e = "") => SumCol(q.in_degree_all.v) = q.number_of_edges>>,
    <<"handshake_out", (dir /\ q.out_degree_all.e = "") => SumCol(q.out_degree_all.v) = q.number_of_edges>>,
    <<"degree_is_in_plus_out", dir =>
         \A i \in DOMAIN q.per_node :
            q.per_node[i].degree.e = "" =>
               q.per_node[i].degree.v = q.per_node[i].in_degree.v + q.per_node[i].out_degree.v>>,
    <<"density", (~g.specs.multi /\ n >= 2) =>
         q.density = Frac((IF dir THEN 1 ELSE 2) * m, n * (n - 1))>>,
    <<"degree_centrality", n >= 2 =>
         MapIs(q.degree_centrality, FALSE, g, LAMBDA x : Frac(Degree(g, x), n - 1))>>,
    <<"adjacency_matrix",
         IF g.specs.multi THEN AnsErr(q.adjacency_matrix, "WrongMethod")
         ELSE /\ q.adjacency_matrix.e = ""
              /\ q.adjacency_matrix.rows = n /\ q.adjacency_matrix.cols = n
              /\ Range(q.adjacency_matrix.v) = MatrixEntries(g)
              /\ Len(q.adjacency_matrix.v) = Cardinality(MatrixEntries(g))>>
  >>
=============================================================================
