----------------------------- MODULE MonitorPar -----------------------------
(***************************************************************************)
(* Trace monitor for C07.                                                  *)
(*                                                                         *)
(* Verdict part: every par_call event says whether the answers computed    *)
(* inside a caller-installed pool of k threads were bit-for-bit identical  *)
(* to the single-threaded answer on every repetition (the comparison of    *)
(* f64::to_bits and of path lists is done by the harness); every           *)
(* par_concurrent event says the same for 8 threads sharing one graph.     *)
(*                                                                         *)
(* Binding part: the hook trace of one repetition (which item started /    *)
(* finished on which rayon thread, which result was combined when) is      *)
(* validated, event by event, as a behaviour of ParMap: a start is ParMap's *)
(* Take, a finish is Finish, a combine is (Collect then) Combine.  A trace *)
(* that is not a behaviour of ParMap while the answers still agree is      *)
(* reported as BINDING-LOST, not as a violation.                           *)
(***************************************************************************)
EXTENDS ParMap, Json, IOUtils

Rec == ndJsonDeserialize(IOEnv.TRACE)

VARIABLES l,   \* current call event
          h    \* next hook event of that call to consume (0: call not yet opened)

mvars == <<l, h>>

(* hook sites that are indexed spans of a parallel section, and their combine site *)
SpanSite(fn) == CASE fn = "all_pairs" -> "all_pairs_par" [] fn = "involving" -> "all_pairs_par"
                  [] fn = "betweenness" -> "betweenness_ss" [] fn = "closeness" -> "closeness_par"
                  [] OTHER -> "none"
CombineSite(fn) == IF fn = "betweenness" THEN "betweenness_combine" ELSE "none"
ModeOf(fn) == IF fn = "betweenness" THEN "indexed" ELSE "keyed"

(* thread index -1 (not a pool thread) is worker K *)
W(t) == IF t < 0 THEN K ELSE t + 1

Relevant(e, ev) == ev[1] = SpanSite(e.fn) \/ ev[1] = CombineSite(e.fn)

FailedOf(checks) == {checks[i][1] : i \in {j \in DOMAIN checks : ~checks[j][2]}}
Report(e, group, checks) ==
  LET f == FailedOf(checks) IN
  IF f = {} THEN TRUE ELSE PrintT("NONCONF " \o ToString(e.id) \o " " \o group \o " " \o ToString(f))

Verdict(e) ==
  IF e.op.k = "par_call"
    THEN Report(e, "parallel", <<<<"serial_path_repeatable", e.serial_repeatable>>, <<"bit_identical", e.equal>>>>)
    ELSE Report(e, "parallel", <<<<"concurrent_read_only_use", e.equal>>>>)

Traced(e) == e.op.k = "par_call" /\ e.expect_parallel /\ SpanSite(e.fn) # "none" /\ e.distinct_threads >= 1

Init0 == l = 1 /\ h = 0 /\ Start(0, "keyed")

(* open the next call: judge it, and start a fresh parallel section *)
Open ==
  /\ l <= Len(Rec) /\ h = 0
  /\ Verdict(Rec[l])
  /\ IF Traced(Rec[l])
       THEN /\ h' = 1 /\ l' = l
            /\ nitems' = Rec[l].n /\ mode' = ModeOf(Rec[l].fn)
            /\ pending' = 0..(Rec[l].n - 1)
            /\ running' = [w \in Workers |-> None]
            /\ slot' = [i \in 0..(Rec[l].n - 1) |-> FALSE]
            /\ writer' = [i \in 0..(Rec[l].n - 1) |-> None]
            /\ collected' = FALSE /\ acc' = <<>> /\ keyed' = {}
       ELSE l' = l + 1 /\ h' = 0 /\ UNCHANGED vars

Lost(e, why) == PrintT("BINDING-LOST " \o ToString(e.id) \o " " \o e.fn \o " pool=" \o ToString(e.pool) \o " at hook event " \o ToString(h) \o ": " \o why)

(* consume one hook event as a ParMap step *)
StepHook ==
  /\ l <= Len(Rec) /\ h >= 1
  /\ LET e == Rec[l] IN
     IF h > Len(e.hook) THEN
          (* end of the trace of this call: the section must be complete *)
          /\ (IF pending = {} /\ (\A w \in Workers : running[w] = None) /\ (mode = "indexed" => acc = Serial)
                THEN TRUE ELSE Lost(e, "section incomplete at end of trace"))
          /\ l' = l + 1 /\ h' = 0 /\ UNCHANGED vars
     ELSE LET ev == e.hook[h] IN
          IF ~Relevant(e, ev) THEN h' = h + 1 /\ l' = l /\ UNCHANGED vars
          ELSE IF ev[2] = 0 THEN
               IF running[W(ev[4])] = None /\ ev[3] \in pending
                 THEN Take(W(ev[4]), ev[3]) /\ h' = h + 1 /\ l' = l
                 ELSE Lost(e, "start is not an enabled Take") /\ l' = l + 1 /\ h' = 0 /\ UNCHANGED vars
          ELSE IF ev[2] = 1 THEN
               IF running[W(ev[4])] = ev[3]
                 THEN Finish(W(ev[4])) /\ h' = h + 1 /\ l' = l
                 ELSE Lost(e, "finish does not match the running item") /\ l' = l + 1 /\ h' = 0 /\ UNCHANGED vars
          ELSE (* combine: the collect barrier is a silent step taken with the first combine *)
               IF (\A i \in Items : slot[i]) /\ ev[3] = Len(acc) /\ mode = "indexed"
                 THEN /\ collected' = TRUE /\ acc' = Append(acc, ev[3])
                      /\ UNCHANGED <<nitems, mode, pending, running, slot, writer, keyed>>
                      /\ h' = h + 1 /\ l' = l
                 ELSE Lost(e, "combine before the barrier or out of index order") /\ l' = l + 1 /\ h' = 0 /\ UNCHANGED vars

Finished == l = Len(Rec) + 1 /\ h = 0 /\ PrintT("MONITOR-DONE") /\ l' = l + 1 /\ UNCHANGED <<h, vars>>

MNext == Open \/ StepHook \/ Finished
MSpec == Init0 /\ [][MNext]_<<vars, mvars>>

(* ParMap's invariants hold in every state the recorded executions drive it through *)
MonInv == RunOnce /\ BarrierBeforeCombine /\ PrefixOfSerial

AllConsumed == IF l = Len(Rec) + 1 THEN TRUE ELSE PrintT(<<"INCOMPLETE", l, Len(Rec)>>) /\ FALSE
=============================================================================
