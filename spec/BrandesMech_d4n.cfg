SPECIFICATION Spec
CONSTANTS
  N = 4
  Directed = TRUE
  WSet <- WNaN
  OnImprove = "reset"
INVARIANTS
  SearchCorrect
  DependencyCorrect
PROPERTIES
  Terminates
CHECK_DEADLOCK FALSE
