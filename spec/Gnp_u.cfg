SPECIFICATION Spec
CONSTANTS
  N = 6
  Directed = FALSE
  Variant = "published"
INVARIANT ValidPairs
INVARIANT AllNextReachable
INVARIANT SlotCounter
INVARIANT EndsWhenExhausted
PROPERTY Increasing
PROPERTY NoRepeat
CHECK_DEADLOCK FALSE
