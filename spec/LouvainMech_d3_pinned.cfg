SPECIFICATION Spec
CONSTANTS
  N = 3
  Directed = TRUE
  WSet <- W12
  NbrRule = "out_only"
  TieRule = "ascending"
INVARIANT IsPartitionInv

PROPERTY MoveIncreasesModularity
PROPERTY Terminates
CHECK_DEADLOCK FALSE
