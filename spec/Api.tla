--------------------------------- MODULE Api ---------------------------------
(***************************************************************************)
(* C20: for every public algorithm and query, the set of outcome classes   *)
(* allowed for a graph kind and an argument shape.                         *)
(*   outcome classes: "Value", "None", "Err:<kind>"  (never Panic / Hang / *)
(*   Abort)                                                                *)
(*   shapes: "none" (no name argument), "existing" (names of the graph),   *)
(*   "absent" (a name that is not in the graph)                            *)
(* chan: "result" (returns Result), "option" (returns Option), "none".     *)
(* kind: which graphs the function supports.                               *)
(* extra: further error kinds that are legitimate on supported graphs.     *)
(***************************************************************************)
EXTENDS Eigen

F(chan, kind, extra) == [chan |-> chan, kind |-> kind, extra |-> extra]

ApiTable ==
  [f \in {} |-> F("none", "any", {})]
  @@ ("edges_have_weight" :> F("none", "any", {}))
  @@ ("get_all_edges" :> F("none", "any", {})) @@ ("get_all_nodes" :> F("none", "any", {}))
  @@ ("number_of_edges" :> F("none", "any", {})) @@ ("size" :> F("none", "any", {}))
  @@ ("get_density" :> F("none", "any", {}))
  @@ ("get_degree_for_all_nodes" :> F("none", "any", {}))
  @@ ("get_in_degree_for_all_nodes" :> F("result", "directed", {}))
  @@ ("get_out_degree_for_all_nodes" :> F("result", "directed", {}))
  @@ ("get_weighted_degree_for_all_nodes" :> F("none", "any", {}))
  @@ ("get_weighted_in_degree_for_all_nodes" :> F("result", "directed", {}))
  @@ ("get_weighted_out_degree_for_all_nodes" :> F("result", "directed", {}))
  @@ ("get_sparse_adjacency_matrix" :> F("result", "single", {}))
  @@ ("reverse" :> F("result", "directed", {}))
  @@ ("to_single_edges" :> F("result", "multi", {}))
  @@ ("set_all_edge_weights" :> F("none", "any", {}))
  @@ ("degree_centrality" :> F("none", "any", {}))
  @@ ("betweenness_centrality" :> F("result", "any", {}))
  @@ ("closeness_centrality" :> F("result", "any", {}))
  @@ ("eigenvector_centrality" :> F("result", "single", {"Err:PowerIterationFailedConvergence"}))
  @@ ("clustering" :> F("result", "single", {"Err:EdgeWeightNotSpecified"}))
  @@ ("average_clustering" :> F("result", "single", {"Err:EdgeWeightNotSpecified"}))
  @@ ("triangles" :> F("result", "undirected_single", {}))
  @@ ("generalized_degree" :> F("result", "undirected_single", {}))
  @@ ("transitivity" :> F("result", "undirected_single", {}))
  @@ ("square_clustering" :> F("none", "any", {}))
  @@ ("connected_components" :> F("result", "undirected", {}))
  @@ ("number_of_connected_components" :> F("result", "undirected", {}))
  @@ ("node_connected_component" :> F("result", "undirected", {}))
  @@ ("weakly_connected_components" :> F("result", "directed", {}))
  @@ ("strongly_connected_components" :> F("result", "directed", {}))
  @@ ("bfs_equal_size_partitions" :> F("none", "any", {}))
  @@ ("is_partition" :> F("none", "any", {}))
  @@ ("modularity" :> F("result", "any", {"Err:NotAPartition"}))
  @@ ("louvain_partitions" :> F("result", "any", {}))
  @@ ("get_subgraph" :> F("none", "any", {}))
  @@ ("has_node" :> F("none", "any", {})) @@ ("has_nodes" :> F("none", "any", {}))
  @@ ("get_node" :> F("option", "any", {})) @@ ("get_node_by_index" :> F("option", "any", {"None"}))
  @@ ("get_edges_for_node" :> F("result", "any", {})) @@ ("get_edges_for_nodes" :> F("result", "any", {}))
  @@ ("get_in_edges_for_node" :> F("result", "directed", {})) @@ ("get_in_edges_for_nodes" :> F("result", "directed", {}))
  @@ ("get_out_edges_for_node" :> F("result", "directed", {})) @@ ("get_out_edges_for_nodes" :> F("result", "directed", {}))
  @@ ("get_neighbor_nodes" :> F("result", "any", {}))
  @@ ("get_successor_nodes" :> F("result", "directed", {})) @@ ("get_predecessor_nodes" :> F("result", "directed", {}))
  @@ ("get_successor_node_names" :> F("result", "directed", {})) @@ ("get_predecessor_node_names" :> F("result", "directed", {}))
  @@ ("get_node_degree" :> F("option", "any", {}))
  @@ ("get_node_in_degree" :> F("option", "directed", {})) @@ ("get_node_out_degree" :> F("option", "directed", {}))
  @@ ("get_node_weighted_degree" :> F("option", "any", {}))
  @@ ("get_node_weighted_in_degree" :> F("option", "directed", {})) @@ ("get_node_weighted_out_degree" :> F("option", "directed", {}))
  @@ ("single_source" :> F("result", "any", {})) @@ ("single_source_target" :> F("result", "any", {}))
  @@ ("multi_source" :> F("result", "any", {})) @@ ("multi_source_target" :> F("result", "any", {}))
  @@ ("all_pairs" :> F("result", "any", {"Err:EdgeWeightNotSpecified"}))
  @@ ("all_pairs_target" :> F("result", "any", {"Err:EdgeWeightNotSpecified"}))
  (* the same three functions over the whole option grid (cutoff x first_only x with_paths, with and without a target) *)
  @@ ("single_source_opts" :> F("result", "any", {})) @@ ("multi_source_opts" :> F("result", "any", {}))
  @@ ("all_pairs_opts" :> F("result", "any", {"Err:EdgeWeightNotSpecified"}))
  @@ ("get_edge" :> F("result", "single", {"Err:EdgeNotFound"}))
  @@ ("get_edges" :> F("result", "multi", {"Err:EdgeNotFound"}))
  @@ ("breadth_first_search" :> F("none", "any", {}))
  @@ ("get_successors_or_neighbors" :> F("none", "any", {}))
  @@ ("get_all_shortest_paths_involving" :> F("none", "any", {}))

KindOK(kind, g) ==
  CASE kind = "any" -> TRUE
    [] kind = "directed" -> g.specs.directed
    [] kind = "undirected" -> ~g.specs.directed
    [] kind = "single" -> ~g.specs.multi
    [] kind = "multi" -> g.specs.multi
    [] kind = "undirected_single" -> ~g.specs.directed /\ ~g.specs.multi

Refusal(chan, e) == IF chan = "option" THEN {"None"} ELSE {e}

Allowed(f, shape, g) ==
  LET a == ApiTable[f]
      sup == KindOK(a.kind, g)
  IN IF a.chan = "none" THEN {"Value"}
     ELSE IF ~sup /\ shape = "absent" THEN Refusal(a.chan, "Err:WrongMethod") \cup Refusal(a.chan, "Err:NodeNotFound")
     ELSE IF ~sup THEN Refusal(a.chan, "Err:WrongMethod")
     ELSE IF shape = "absent" THEN Refusal(a.chan, "Err:NodeNotFound") \cup (a.extra \cap {"Err:EdgeWeightNotSpecified"})
     ELSE {"Value"} \cup a.extra

ApiChecks(g, a) ==
  <<
    <<"known_function", \A i \in DOMAIN a.calls : a.calls[i].f \in DOMAIN ApiTable>>,
    <<"never_panics_or_hangs", \A i \in DOMAIN a.calls :
        Range(a.calls[i].outs) \cap {"Panic", "Hang", "Abort"} = {}>>,
    <<"uses_its_error_channel", \A i \in DOMAIN a.calls :
        LET c == a.calls[i] IN
        c.f \in DOMAIN ApiTable =>
           (Range(c.outs) \ {"Panic", "Hang", "Abort"}) \subseteq Allowed(c.f, c.shape, g)>>
  >>
=============================================================================
