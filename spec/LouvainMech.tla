----------------------------- MODULE LouvainMech -----------------------------
(***************************************************************************)
(* The local-move phase of Louvain (compute_one_level in louvain.rs) as a  *)
(* state machine with exact integer arithmetic.                            *)
(*                                                                         *)
(* Nodes are visited in a fixed order (the seeded shuffle), sweep after    *)
(* sweep, until a whole sweep moves nothing.  Visiting u:                  *)
(*   - u is taken out of its community (its degree leaves the totals),     *)
(*   - for every community c of a neighbour of u the gain is               *)
(*       undirected  2*wt(u,c) - res*Stot[c]*deg(u)/m                      *)
(*       directed    wt(u,c) - res*(out(u)*StotIn[c] + in(u)*StotOut[c])/m *)
(*     (here multiplied by m*rd so that it is an integer; res = rn/rd),    *)
(*   - the best community is the first one, in the candidate order, whose  *)
(*     gain is strictly larger than everything before it and than 0;       *)
(*     u stays where it is if no gain is positive.                         *)
(*                                                                         *)
(* NbrRule "in_and_out": wt(u,c) counts edges from and to u (the repaired  *)
(*   code, as networkx).  "out_only": successors only (the code as pinned; *)
(*   TLC finds a sweep cycle on small digraphs: non-termination).          *)
(* TieRule "ascending": candidates in ascending community id (repaired     *)
(*   code: a pure function of the visiting order).  "any": an exact tie    *)
(*   may be broken either way (hash order, code as pinned): TLC shows the  *)
(*   outcome is then not a function of the arguments.                      *)
(*                                                                         *)
(* Communities are numbered by the rank of the node that founded them      *)
(* (node2com starts as the identity on sorted node ranks).                 *)
(***************************************************************************)
EXTENDS LouvainRules

---------------------------------------------------------------------------
(* the state machine, for model checking *)

CONSTANTS N, Directed, WSet, NbrRule, TieRule

VARIABLES g, order, com, pos, moved, done, qnum

vars == <<g, order, com, pos, moved, done, qnum>>

Pairs == {p \in (1..N) \X (1..N) : p[1] # p[2] /\ (Directed \/ p[1] < p[2])}
Specs == [directed |-> Directed, multi |-> FALSE, loops |-> FALSE, dedupe |-> "Error", missing |-> "Create", loopfalse |-> "Error"]
GraphOf(E, wf) == [specs |-> Specs, nodes |-> [i \in 1..N |-> [name |-> i, attr |-> 0]], edges |-> [k \in E |-> <<[w |-> wf[k], a |-> 0]>>]]

Perms == {s \in [1..N -> 1..N] : \A i, j \in 1..N : s[i] = s[j] => i = j}

Res == <<1, 1>>

(* exact modularity of the current assignment as an integer over a fixed denominator *)
QFam(c) == {Members(c, x) : x \in {c[n] : n \in DOMAIN c}}
QOf(c) == Modularity(g, QFam(c), WSet # {NaN}, Res)

Init == /\ \E E \in (SUBSET Pairs) \ {{}} : \E wf \in [E -> WSet] : g = GraphOf(E, wf)
        /\ order \in Perms
        /\ com = [n \in 1..N |-> n - 1]
        /\ pos = 1 /\ moved = FALSE /\ done = FALSE
        /\ qnum = <<0, 1>>

Visit ==
  /\ ~done /\ pos <= N
  /\ LET u == order[pos] IN
     \E c \in Choices(g, WSet # {NaN}, com, u, Res, NbrRule, TieRule) :
        /\ com' = IF c = com[u] THEN com ELSE [com EXCEPT ![u] = c]
        /\ moved' = (moved \/ c # com[u])
  /\ pos' = pos + 1
  /\ UNCHANGED <<g, order, done, qnum>>

EndSweep ==
  /\ ~done /\ pos > N
  /\ IF moved THEN pos' = 1 /\ moved' = FALSE /\ done' = FALSE ELSE done' = TRUE /\ UNCHANGED <<pos, moved>>
  /\ UNCHANGED <<g, order, com, qnum>>

Next == Visit \/ EndSweep
Spec == Init /\ [][Next]_vars /\ WF_vars(Next)

(* every real move increases the exact modularity, or keeps it and moves the node to a
   community with a smaller id (an exact tie with its own community, broken by the
   ascending rule): a lexicographic potential, hence no cycle, hence termination *)
ComSum(c) == SumOver(DOMAIN c, LAMBDA n : c[n])
MoveIncreasesModularity ==
  [][(com' # com) =>
        LET a == QOf(com)
            b == QOf(com')
        IN \/ a[1] * b[2] < b[1] * a[2]
           \/ (a[1] * b[2] = b[1] * a[2] /\ ComSum(com') < ComSum(com))]_vars
Terminates == <>done
(* at every visit at most one candidate attains the maximal positive gain *)
TieFree ==
  (~done /\ pos <= N) =>
     LET u == order[pos]
         cs == Candidates(g, com, u, NbrRule)
         G(c) == Gain(g, WSet # {NaN}, com, u, c, Res, NbrRule)
         p == {c \in cs : G(c) > 0}
     IN Cardinality({c \in p : \A d \in p : G(d) <= G(c)}) <= 1
(* the communities are always a partition into non-empty sets *)
IsPartitionInv == UNION QFam(com) = 1..N /\ \A s \in QFam(com) : s # {}

W1 == {NaN}
W12 == {1, 2}
=============================================================================
