SPECIFICATION Spec
CONSTANTS
  N = 4
  Directed = FALSE
  WSet <- W12
  OnImprove = "reset"
INVARIANTS
  SearchCorrect
  DependencyCorrect
PROPERTIES
  Terminates
CHECK_DEADLOCK FALSE
