------------------------------ MODULE MCPaths ------------------------------
(***************************************************************************)
(* Model-checking instance for the definitions of Paths and Centrality:    *)
(* every graph of a small family is an initial state; the invariants state *)
(* that the recursive definitions (relaxation, tight-edge DAG) agree with  *)
(* the brute-force definition over simple paths, that undirected distances *)
(* are symmetric, that the triangle inequality holds, and basic facts of   *)
(* betweenness / closeness.  These are properties of the specification     *)
(* itself; they make the oracle used by the monitors trustworthy.          *)
(***************************************************************************)
EXTENDS Centrality

CONSTANTS N, Directed, Loops, WSet, MaxE

VARIABLE g

Pairs == {p \in (1..N) \X (1..N) : (Loops \/ p[1] # p[2]) /\ (Directed \/ p[1] <= p[2])}

Specs == [directed |-> Directed, multi |-> FALSE, loops |-> Loops,
          dedupe |-> "Error", missing |-> "Create", loopfalse |-> "Error"]

GraphOf(E, wf) ==
  [specs |-> Specs,
   nodes |-> [i \in 1..N |-> [name |-> i, attr |-> 0]],
   edges |-> [k \in E |-> <<[w |-> wf[k], a |-> 0]>>]]

Init == \E E \in {F \in SUBSET Pairs : Cardinality(F) <= MaxE} : \E wf \in [E -> WSet] : g = GraphOf(E, wf)
Next == UNCHANGED g
Spec == Init /\ [][Next]_g

Weighted == WSet # {NaN}

InvDefinitionsAgree == DefinitionsAgree(g, Weighted)
InvSymmetric == UndirectedSymmetric(g, Weighted)
InvTriangle == Triangle(g, Weighted)
InvBetweennessSane ==
  AllPositive(g, Weighted) =>
    \A B \in {BetweennessRaw(g, Weighted)} : \A SPs \in {AllShortestPaths(g, Weighted)} :
       /\ \A v \in Names(g) : B[v][1] >= 0 /\ B[v][2] > 0
       (* a node on no shortest path between two other nodes has betweenness 0 and vice versa *)
       /\ \A v \in Names(g) :
            (B[v][1] = 0) <=> ~\E s, t \in Names(g) : s # v /\ t # v /\ s # t /\
                                   \E p \in SPs[s][t] : \E i \in 2..(Len(p) - 1) : p[i] = v
InvClosenessRange ==
  AllPositive(g, Weighted) =>
    \A C \in {Closeness(g, Weighted, TRUE)} : \A v \in Names(g) : C[v][1] >= 0 /\ (~Weighted => C[v][1] <= C[v][2])

W12 == {1, 2}
W012 == {0, 1, 2}
WNaN == {NaN}
=============================================================================
