---------------------------- MODULE ParMapProof ----------------------------
(***************************************************************************)
(* C07, unbounded part.  TLC checks ParMap for K workers and a handful of  *)
(* items; here the central safety property of the "indexed" shape,         *)
(*     the sequence of combine steps is always a prefix of the serial one, *)
(* is proved with TLAPS for ANY number of workers and ANY number of items: *)
(* Inv below is inductive and implies PrefixOfSerial.                      *)
(* Also proved: nothing is combined before every item has finished         *)
(* (BarrierBeforeCombine), and the final sequence is the serial one.       *)
(* Checked with:  tlapm --threads 8 -I .. ParMapProof.tla                  *)
(***************************************************************************)
EXTENDS ParMap, TLAPS

ASSUME KNat == K \in Nat

(* the part of the state the property depends on *)
Inv == /\ nitems \in Nat
       /\ mode = "indexed"
       /\ acc \in Seq(Nat)
       /\ Len(acc) <= nitems
       /\ \A i \in 1..Len(acc) : acc[i] = i - 1

IndexedSpec == (Init /\ MCMode = "indexed" /\ MCItems \in Nat) /\ [][Next]_vars

LEMMA InitInv == (Init /\ MCMode = "indexed" /\ MCItems \in Nat) => Inv
  BY DEF Init, Start, Inv

LEMMA NextInv == Inv /\ [Next]_vars => Inv'
<1> SUFFICES ASSUME Inv, [Next]_vars PROVE Inv'
  OBVIOUS
<1>1. CASE \E w \in Workers, i \in Items : Take(w, i)
  BY <1>1 DEF Take, Inv
<1>2. CASE \E w \in Workers : Finish(w)
  BY <1>2 DEF Finish, Inv, Mode
<1>3. CASE Collect
  BY <1>3 DEF Collect, Inv
<1>4. CASE Combine
  <2>1. acc' = Append(acc, Len(acc)) /\ Len(acc) < nitems /\ nitems' = nitems /\ mode' = mode
    BY <1>4 DEF Combine, NItems
  <2>2. Len(acc) \in Nat
    BY DEF Inv
  <2>3. acc' \in Seq(Nat) /\ Len(acc') = Len(acc) + 1
    BY <2>1, <2>2 DEF Inv
  <2>4. \A i \in 1..Len(acc') : acc'[i] = i - 1
    BY <2>1, <2>2, <2>3 DEF Inv
  <2> QED
    BY <2>1, <2>2, <2>3, <2>4 DEF Inv
<1>5. CASE UNCHANGED vars
  BY <1>5 DEF vars, Inv
<1> QED
  BY <1>1, <1>2, <1>3, <1>4, <1>5 DEF Next

THEOREM InvAlways == IndexedSpec => []Inv
  BY InitInv, NextInv, PTL DEF IndexedSpec

(* the collect barrier: combining starts only after the barrier, and the barrier is passed only
   when every slot is filled; slots are never emptied *)
Barrier == /\ nitems \in Nat
           /\ mode = "indexed"
           /\ acc \in Seq(Nat)
           /\ slot \in [Items -> BOOLEAN]
           /\ (Len(acc) > 0 => collected)
           /\ (collected => \A i \in Items : slot[i])

LEMMA InitBarrier == (Init /\ MCMode = "indexed" /\ MCItems \in Nat) => Barrier
  BY DEF Init, Start, Barrier, Items

LEMMA NextBarrier == Barrier /\ [Next]_vars => Barrier'
<1> SUFFICES ASSUME Barrier, [Next]_vars PROVE Barrier'
  OBVIOUS
<1>1. CASE \E w \in Workers, i \in Items : Take(w, i)
  BY <1>1 DEF Take, Barrier, Items
<1>2. CASE \E w \in Workers : Finish(w)
  <2>1. PICK w \in Workers : Finish(w)
    BY <1>2
  <2>2. acc' = acc /\ collected' = collected /\ nitems' = nitems /\ mode' = mode
    BY <2>1 DEF Finish, Barrier, Mode
  <2>3. slot' \in [Items -> BOOLEAN] /\ \A i \in Items : slot[i] => slot'[i]
    BY <2>1 DEF Finish, Barrier
  <2> QED
    BY <2>2, <2>3 DEF Barrier, Items
<1>3. CASE Collect
  BY <1>3 DEF Collect, Barrier, Items
<1>4. CASE Combine
  BY <1>4 DEF Combine, Barrier, Items, NItems
<1>5. CASE UNCHANGED vars
  BY <1>5 DEF vars, Barrier, Items
<1> QED
  BY <1>1, <1>2, <1>3, <1>4, <1>5 DEF Next

THEOREM BarrierAlways == IndexedSpec => []Barrier
  BY InitBarrier, NextBarrier, PTL DEF IndexedSpec

LEMMA BarrierImplies == Barrier => BarrierBeforeCombine
  BY DEF Barrier, BarrierBeforeCombine, Mode

THEOREM IndexedSpec => []BarrierBeforeCombine
  BY BarrierAlways, BarrierImplies, PTL

(* Inv implies the property TLC checks on bounded instances *)
LEMMA InvImpliesPrefix == Inv => PrefixOfSerial
  BY DEF Inv, PrefixOfSerial, IsPrefix, Serial, Mode, NItems

THEOREM IndexedSpec => []PrefixOfSerial
  BY InvAlways, InvImpliesPrefix, PTL
---------------------------------------------------------------------------
(* The keyed shape (results collected into a map keyed by item: multi_source, closeness): at the
   barrier the key set is the full item set, whatever the schedule. *)
KeyedSpec == (Init /\ MCMode = "keyed" /\ MCItems \in Nat) /\ [][Next]_vars

KInv == /\ nitems \in Nat
        /\ mode = "keyed"
        /\ slot \in [Items -> BOOLEAN]
        /\ running \in [Workers -> Items \cup {None}]
        /\ keyed = {i \in Items : slot[i]}
        /\ (collected => \A i \in Items : slot[i])

LEMMA InitKInv == (Init /\ MCMode = "keyed" /\ MCItems \in Nat) => KInv
  BY DEF Init, Start, KInv, Items, None

LEMMA NextKInv == KInv /\ [Next]_vars => KInv'
<1> SUFFICES ASSUME KInv, [Next]_vars PROVE KInv'
  OBVIOUS
<1>1. CASE \E w \in Workers, i \in Items : Take(w, i)
  BY <1>1 DEF Take, KInv, Items
<1>2. CASE \E w \in Workers : Finish(w)
  <2>1. PICK w \in Workers : Finish(w)
    BY <1>2
  <2>2. running[w] \in Items
    BY <2>1 DEF Finish, KInv
  <2>3. /\ slot' = [slot EXCEPT ![running[w]] = TRUE]
        /\ keyed' = keyed \cup {running[w]}
        /\ running' = [running EXCEPT ![w] = None]
        /\ nitems' = nitems /\ mode' = mode /\ collected' = collected
    BY <2>1 DEF Finish, KInv, Mode
  <2>4. slot' \in [Items -> BOOLEAN] /\ running' \in [Workers -> Items \cup {None}]
    BY <2>3 DEF KInv
  <2>5. keyed' = {i \in Items : slot'[i]}
    BY <2>2, <2>3 DEF KInv
  <2>6. \A i \in Items : slot[i] => slot'[i]
    BY <2>3 DEF KInv
  <2> QED
    BY <2>3, <2>4, <2>5, <2>6 DEF KInv, Items
<1>3. CASE Collect
  BY <1>3 DEF Collect, KInv, Items
<1>4. CASE Combine
  BY <1>4 DEF Combine, KInv, Mode
<1>5. CASE UNCHANGED vars
  BY <1>5 DEF vars, KInv, Items
<1> QED
  BY <1>1, <1>2, <1>3, <1>4, <1>5 DEF Next

THEOREM KInvAlways == KeyedSpec => []KInv
  BY InitKInv, NextKInv, PTL DEF KeyedSpec

LEMMA KInvImplies == KInv => KeyedComplete
  BY DEF KInv, KeyedComplete, Mode, Items

THEOREM KeyedSpec => []KeyedComplete
  BY KInvAlways, KInvImplies, PTL
=============================================================================
