----------------------------- MODULE ValueTypes -----------------------------
(***************************************************************************)
(* Value semantics of Edge and Node (growth beyond the listed properties;  *)
(* C01 and C02 rely on them: undirected edges are stored `ordered()`,      *)
(* equality of edges and nodes ignores weights and attributes).            *)
(*                                                                         *)
(*   Edge = [u, v, w, a]    Node = [name, attr]                            *)
(* `ordered` swaps the endpoints when u > v, `reversed` always; both keep  *)
(* weight and attributes.  Eq / Ord / Hash of an edge look at (u, v) only, *)
(* of a node at the name only, and agree with one another.                 *)
(***************************************************************************)
EXTENDS Integers, Sequences, FiniteSets, TLC, Json, IOUtils

EdgeOrdered(e) == IF e.u > e.v THEN [e EXCEPT !.u = e.v, !.v = e.u] ELSE e
EdgeReversed(e) == [e EXCEPT !.u = e.v, !.v = e.u]
EdgeEq(a, b) == a.u = b.u /\ a.v = b.v
Cmp(x, y) == IF x < y THEN -1 ELSE IF x > y THEN 1 ELSE 0
EdgeCmp(a, b) == IF a.u # b.u THEN Cmp(a.u, b.u) ELSE Cmp(a.v, b.v)
NodeEq(a, b) == a.name = b.name
NodeCmp(a, b) == Cmp(a.name, b.name)

(* laws of the definitions, checked by TLC over a small universe (ASSUME) *)
EdgeU == [u : 1..3, v : 1..3, w : {-1, 1}, a : {0, 1}]
NodeU == [name : 1..3, attr : {0, 1}]
ASSUME \A e \in EdgeU : /\ EdgeOrdered(e).u <= EdgeOrdered(e).v
                        /\ EdgeOrdered(EdgeOrdered(e)) = EdgeOrdered(e)
                        /\ EdgeReversed(EdgeReversed(e)) = e
                        /\ EdgeOrdered(e).w = e.w /\ EdgeOrdered(e).a = e.a
                        /\ EdgeOrdered(EdgeReversed(e)) \in {EdgeOrdered(e), EdgeReversed(EdgeOrdered(e))}
ASSUME \A a, b \in EdgeU : (EdgeCmp(a, b) = 0) <=> EdgeEq(a, b)
ASSUME \A a, b \in EdgeU : EdgeCmp(a, b) = -EdgeCmp(b, a)
ASSUME \A a, b, c \in EdgeU : (EdgeCmp(a, b) <= 0 /\ EdgeCmp(b, c) <= 0) => EdgeCmp(a, c) <= 0

(* the named GraphSpecs constructors, as the documentation states them *)
SpecsOf(d, m, s, miss) == [directed |-> d, multi |-> m, loops |-> s, dedupe |-> "Error", missing |-> miss, loopfalse |-> "Error"]
Ctors == [directed |-> SpecsOf(TRUE, FALSE, FALSE, "Error"),
          directed_create_missing |-> SpecsOf(TRUE, FALSE, FALSE, "Create"),
          undirected |-> SpecsOf(FALSE, FALSE, FALSE, "Error"),
          undirected_create_missing |-> SpecsOf(FALSE, FALSE, FALSE, "Create"),
          multi_directed |-> SpecsOf(TRUE, TRUE, TRUE, "Error"),
          multi_undirected |-> SpecsOf(FALSE, TRUE, TRUE, "Error")]

(* ---- trace monitor: one event holds every observation over the universe ---- *)
Rec == ndJsonDeserialize(IOEnv.TRACE)
VARIABLES l

E(x) == [u |-> x[1], v |-> x[2], w |-> x[3], a |-> x[4]]
T(e) == <<e.u, e.v, e.w, e.a>>
N(x) == [name |-> x[1], attr |-> x[2]]

FailedOf(checks) == {checks[i][1] : i \in {j \in DOMAIN checks : ~checks[j][2]}}
Checks(e) ==
  <<<<"edge_ordered", \A i \in DOMAIN e.edge1 : e.edge1[i].ordered = T(EdgeOrdered(E(e.edge1[i].e)))>>,
    <<"edge_reversed", \A i \in DOMAIN e.edge1 : e.edge1[i].reversed = T(EdgeReversed(E(e.edge1[i].e)))>>,
    <<"edge_eq", \A i \in DOMAIN e.edge2 : e.edge2[i].eq = EdgeEq(E(e.edge2[i].a), E(e.edge2[i].b))>>,
    <<"edge_cmp", \A i \in DOMAIN e.edge2 : e.edge2[i].cmp = EdgeCmp(E(e.edge2[i].a), E(e.edge2[i].b))>>,
    <<"edge_hash_agrees_with_eq", \A i \in DOMAIN e.edge2 : EdgeEq(E(e.edge2[i].a), E(e.edge2[i].b)) => e.edge2[i].same_hash>>,
    <<"graph_specs_constructors", e.ctors = Ctors>>,
    <<"node_eq", \A i \in DOMAIN e.node2 : e.node2[i].eq = NodeEq(N(e.node2[i].a), N(e.node2[i].b))>>,
    <<"node_cmp", \A i \in DOMAIN e.node2 : e.node2[i].cmp = NodeCmp(N(e.node2[i].a), N(e.node2[i].b))>>,
    <<"node_hash_agrees_with_eq", \A i \in DOMAIN e.node2 : NodeEq(N(e.node2[i].a), N(e.node2[i].b)) => e.node2[i].same_hash>>>>

Init == l = 1
Next == /\ l <= Len(Rec)
        /\ LET f == FailedOf(Checks(Rec[l])) IN
           IF f = {} THEN TRUE ELSE PrintT("NONCONF " \o ToString(Rec[l].id) \o " values " \o ToString(f))
        /\ l' = l + 1
Spec == Init /\ [][Next]_l
AllConsumed == IF TLCGet("stats").diameter = Len(Rec) + 1 THEN TRUE
               ELSE PrintT(<<"INCOMPLETE", TLCGet("stats").diameter, Len(Rec)>>) /\ FALSE
=============================================================================
