------------------------------- MODULE GraphML -------------------------------
(***************************************************************************)
(* C14 / C19: GraphML writer and reader over an abstract alphabet of XML   *)
(* tokens.  Names and weights are opaque tokens (integers); the harness    *)
(* instantiates them with concrete strings and floats and checks the       *)
(* lexical part (escaping, float printing) by token identity.              *)
(*                                                                         *)
(* A token is a record [t |-> kind, ...]:                                  *)
(*   [t |-> "G",  dflt |-> "directed" | "undirected" | "other" | "none"]   *)
(*   [t |-> "/G"]                                                          *)
(*   [t |-> "N",  id |-> name | 0 (attribute missing), open |-> BOOLEAN]   *)
(*                 open = TRUE: <node ..></node>, FALSE: <node ../>        *)
(*   [t |-> "E",  s |-> name | 0, d |-> name | 0, open |-> BOOLEAN]        *)
(*                 open = TRUE: <edge ..> follows data tokens then "/E"    *)
(*   [t |-> "/E"]                                                          *)
(*   [t |-> "D",  key |-> "weight" | "alt" | "other" | "none",             *)
(*                txt |-> "num" | "pad" | "word" | "empty" | "child" | ... *)
(*                w |-> weight token]                                      *)
(*   [t |-> "K",  form |-> "std" | "alt" | "nofor" | "noid" | "othername"] *)
(*   [t |-> "X"] unknown element, [t |-> "T"] stray text, [t |-> "C"]      *)
(*   comment, [t |-> "DUP", id] node with a duplicated id attribute,       *)
(*   [t |-> "ENT"] node whose id holds an unknown entity,                  *)
(*   [t |-> "TRUNC"] the document stops (inside a tag, data, a comment ..),  *)
(*   [t |-> "NU"]    a node whose id consists of multi-byte characters,      *)
(*   [t |-> "BADEND"] a mismatched end tag                                 *)
(* A document is <graphml> tokens </graphml>.                              *)
(***************************************************************************)
EXTENDS GraphDerive

(* ---------------------------------------------------------------- writer *)
NodeTok(n) == [t |-> "N", id |-> n, open |-> FALSE]

EdgeToks(u, v, rec) ==
  IF rec.w = NaN THEN <<[t |-> "E", s |-> u, d |-> v, open |-> TRUE], [t |-> "/E"]>>
  ELSE <<[t |-> "E", s |-> u, d |-> v, open |-> TRUE],
         [t |-> "D", key |-> "weight", txt |-> "num", w |-> rec.w], [t |-> "/E"]>>

RECURSIVE EdgeSeqToks(_)
EdgeSeqToks(flat) ==       \* flat: sequence of <<u, v, w, a>>
  IF flat = <<>> THEN <<>>
  ELSE EdgeToks(flat[1][1], flat[1][2], [w |-> flat[1][3], a |-> 0]) \o EdgeSeqToks(Tail(flat))

(* key, graph, nodes in position order, edges (any order that keeps each pair's order;
   here: pairs ascending) *)
Write(g) ==
  <<[t |-> "K", form |-> "std"],
    [t |-> "G", dflt |-> IF g.specs.directed THEN "directed" ELSE "undirected"]>>
  \o [i \in 1..Len(g.nodes) |-> NodeTok(g.nodes[i].name)]
  \o EdgeSeqToks(FlatSeq(g, Keys(g)))
  \o <<[t |-> "/G"]>>

(* ---------------------------------------------------------------- reader *)
(* scanning state *)
ScanInit == [dir |-> TRUE, declared |-> FALSE, nodes |-> <<>>, edges |-> <<>>, inEdge |-> FALSE,
             wkey |-> "weight", err |-> FALSE, lenient |-> FALSE, wlenient |-> FALSE]

ScanTok(st, tk) ==
  CASE tk.t = "G" ->
         IF tk.dflt = "directed" THEN [st EXCEPT !.dir = TRUE, !.declared = TRUE, !.lenient = @ \/ st.declared]
         ELSE IF tk.dflt = "undirected" THEN [st EXCEPT !.dir = FALSE, !.declared = TRUE, !.lenient = @ \/ st.declared]
         ELSE [st EXCEPT !.err = TRUE]
    [] tk.t = "N" ->
         IF tk.id = 0 THEN [st EXCEPT !.err = TRUE]
         ELSE [st EXCEPT !.nodes = Append(@, [name |-> tk.id, attr |-> 0]), !.inEdge = FALSE]
    [] tk.t = "E" ->
         IF tk.s = 0 \/ tk.d = 0 THEN [st EXCEPT !.err = TRUE]
         ELSE [st EXCEPT !.edges = Append(@, [u |-> tk.s, v |-> tk.d, w |-> NaN, a |-> 0]), !.inEdge = tk.open]
    [] tk.t = "/E" -> [st EXCEPT !.inEdge = FALSE]
    [] tk.t = "D" ->
         (* a node or edge element nested inside a data element: whether it counts as an element of the graph is not
            specified, whatever the key *)
         IF tk.txt \in {"childnode", "childedge"} THEN [st EXCEPT !.lenient = TRUE]
         ELSE IF tk.key = "none" \/ tk.key = "other" \/ (tk.key = "alt" /\ st.wkey # "alt") \/ (tk.key = "weight" /\ st.wkey # "weight")
           THEN st                                               \* not the weight key: ignored
         (* an empty-element tag <data key=.../>: an element without text.  Which weight it gives is not specified,
            but it is one complete element and everything after it still counts *)
         ELSE IF tk.txt = "selfclose" THEN [st EXCEPT !.wlenient = TRUE]
         ELSE IF ~st.inEdge THEN [st EXCEPT !.wlenient = TRUE]    \* weight data outside an open edge: unspecified
         ELSE IF tk.txt = "num"
           THEN [st EXCEPT !.edges = [@ EXCEPT ![Len(@)] = [@ EXCEPT !.w = tk.w]]]
         ELSE [st EXCEPT !.lenient = TRUE]                        \* padded / non-numeric / empty / nested: Err or Ok
    [] tk.t = "K" ->
         IF tk.form = "std" THEN [st EXCEPT !.wkey = "weight"]
         ELSE IF tk.form = "alt" THEN [st EXCEPT !.wkey = "alt"]
         ELSE IF tk.form = "othername" THEN st
         ELSE [st EXCEPT !.lenient = TRUE]
    [] tk.t \in {"X", "T", "C", "/G"} -> st
    [] tk.t \in {"DUP", "ENT", "TRUNC", "BADEND", "NU"} -> [st EXCEPT !.lenient = TRUE]

RECURSIVE Scan(_, _)
Scan(st, toks) == IF toks = <<>> THEN st ELSE Scan(ScanTok(st, Head(toks)), Tail(toks))

(* the outcome the contract requires for a token sequence read with `specs`:
   [class |-> "Err" | "Ok" | "Any", g |-> graph when Ok, weights |-> whether weights are determined] *)
ReadContract(toks, specs) ==
  LET st == Scan(ScanInit, toks) IN
  IF st.lenient THEN [class |-> "Any", g |-> EmptyGraph(specs), weights |-> FALSE]
  ELSE IF st.err THEN [class |-> "Err", g |-> EmptyGraph(specs), weights |-> FALSE]
  ELSE LET sp == [specs EXCEPT !.directed = st.dir]
           r == NewFromRule(sp, st.nodes, st.edges)
       IN IF r.res # "Ok" THEN [class |-> "Err", g |-> EmptyGraph(sp), weights |-> FALSE]
          ELSE [class |-> IF st.declared THEN "Ok" ELSE "OkAnyDirection", g |-> r.g, weights |-> ~st.wlenient]

(* same graph up to weights *)
SameShape(x, y) ==
  /\ x.nodes = y.nodes /\ Keys(x) = Keys(y)
  /\ \A k \in Keys(x) : Len(x.edges[k]) = Len(y.edges[k])

(* C14 at the design level: reading what was written gives the graph back *)
RoundTrip(g) ==
  LET c == ReadContract(Write(g), g.specs)
      bare == [g EXCEPT !.nodes = [i \in 1..Len(g.nodes) |-> [name |-> g.nodes[i].name, attr |-> 0]],
                        !.edges = [k \in Keys(g) |-> [j \in 1..Len(g.edges[k]) |-> [w |-> g.edges[k][j].w, a |-> 0]]]]
  IN c.class = "Ok" /\ c.weights /\ SameGraph(c.g, bare)

(* C19 on a recorded call: outcome class and, for Ok, the graph *)
ReadConforms(toks, specs, outcome, got) ==
  LET c == ReadContract(toks, specs) IN
  /\ outcome \in {"Ok", "Err"}                                  \* never a panic, hang or abort
  /\ outcome = "Ok" => WellFormed(got)
  /\ c.class = "Err" => outcome = "Err"
  /\ c.class \in {"Ok", "OkAnyDirection"} =>
        /\ outcome = "Ok"
        /\ IF c.class = "Ok" THEN got.specs = c.g.specs
           ELSE [got.specs EXCEPT !.directed = TRUE] = [c.g.specs EXCEPT !.directed = TRUE]
        /\ c.class = "Ok" => (IF c.weights THEN SameGraph(got, c.g) ELSE SameShape(got, c.g))
=============================================================================
