----------------------------- MODULE MonitorAlgo -----------------------------
(***************************************************************************)
(* Trace monitor for the algorithm layer.  Each event carries the graph    *)
(* (projection of the real Graph after the case's history, e.post) and the *)
(* canonicalised answers of one suite of calls (e.a).  The monitor judges  *)
(* every answer against the definitions of Paths / Centrality / ...        *)
(* evaluated on e.post alone, prints                                       *)
(*     NONCONF <id> <group> {failed checks}                                *)
(* and continues.                                                          *)
(***************************************************************************)
EXTENDS LouvainRules, DijkstraRules, Json, IOUtils

Rec == ndJsonDeserialize(IOEnv.TRACE)

VARIABLES l

Opts(c) == [target |-> c.target, cutoff |-> c.cutoff, first_only |-> c.first_only, with_paths |-> c.with_paths]

(* Dist / ShortestPaths are computed once per (mode, source) and shared by every
   call that has that source: the single_source calls, and the per-source parts
   of the all_pairs and multi_source answers. *)
InnerFor(c, s) == {i \in DOMAIN c.ans.v : c.ans.v[i][1] = s}

PerSourceOK(g, a, w, s) ==
  LET pos == AllPositive(g, w)
      MultiInner(cs, D, SP) ==
        \A i \in DOMAIN cs :
           (cs[i].weighted = w /\ cs[i].ans.e = "") =>
              \A j \in InnerFor(cs[i], s) : SSOK(g, w, s, D, SP, pos, Opts(cs[i]), cs[i].ans.v[j][2])
  IN Only({[ss |-> \A i \in DOMAIN a.ss :
                     (a.ss[i].weighted = w /\ a.ss[i].s = s) =>
                        \A k \in DOMAIN a.ss[i].calls :
                           LET c == a.ss[i].calls[k] IN c.ans.e = "" /\ SSOK(g, w, s, D, SP, pos, Opts(c), c.ans.v),
            ap |-> MultiInner(a.ap, D, SP),
            ms |-> MultiInner(a.ms, D, SP)]
           : <<D, SP>> \in {<<DD, SPTable(g, w, s, pos, DD)>> : DD \in {Dist(g, w, s)}}})

(* all_pairs / multi_source: exactly one single-source answer per requested source *)
MultiShape(g, c, sources) ==
  /\ c.ans.e = ""
  /\ {c.ans.v[i][1] : i \in DOMAIN c.ans.v} = sources
  /\ Len(c.ans.v) = Cardinality(sources)

InvolvingOK(g, c) ==
  /\ c.ans.e = ""
  /\ AllPositive(g, c.weighted) =>
       \A I \in {Involving(g, c.weighted, c.x)} :
          /\ {<<c.ans.v[i][1], c.ans.v[i][2]>> : i \in DOMAIN c.ans.v} = I
          /\ Len(c.ans.v) = Cardinality(I)

PathsChecks(g, a) ==
  LET modes == {a.ss[i].weighted : i \in DOMAIN a.ss} \cup {a.ap[i].weighted : i \in DOMAIN a.ap}
               \cup {a.ms[i].weighted : i \in DOMAIN a.ms}
  IN \* the per-(mode, source) verdicts, computed once
  Only({
  <<<<"single_source", \A w \in modes : \A s \in Names(g) : R[w][s].ss>>,
    <<"all_pairs", /\ \A i \in DOMAIN a.ap : MultiShape(g, a.ap[i], Names(g))
                   /\ \A w \in modes : \A s \in Names(g) : R[w][s].ap>>,
    <<"multi_source", /\ \A i \in DOMAIN a.ms : MultiShape(g, a.ms[i], Range(a.ms[i].sources))
                      /\ \A w \in modes : \A s \in Names(g) : R[w][s].ms>>,
    <<"involving", \A i \in DOMAIN a.inv : InvolvingOK(g, a.inv[i])>>>>
  : R \in {Strict([w \in modes |-> Strict([s \in Names(g) |-> PerSourceOK(g, a, w, s)])])}})

CentralityChecks(g, a) ==
  <<<<"betweenness", \A i \in DOMAIN a.bc :
        LET c == a.bc[i] IN
        c.ans.e = "" /\ (AllPositive(g, c.weighted) =>
                           CentralityMapIs(c.ans.v, g, Betweenness(g, c.weighted, c.normalized)))>>,
    <<"closeness", \A i \in DOMAIN a.cc :
        LET c == a.cc[i] IN
        c.ans.e = "" /\ (AllPositive(g, c.weighted) =>
                           CentralityMapIs(c.ans.v, g, Closeness(g, c.weighted, c.wf)))>>>>

---------------------------------------------------------------------------
(* Binding of DijkstraRules to the code (informational group dijkstra_mech):   *)
(* given the traversal lists the hook reports, the deterministic search loop   *)
(* of the specification predicts which nodes are reported and the exact order  *)
(* of the returned paths of every single_source call.  The order is not part   *)
(* of any property; a mismatch means that the specification no longer          *)
(* describes the loop in dijkstra.rs, not that the library is wrong.            *)
PosOf(g, name) == CHOOSE i \in 1..Len(g.nodes) : g.nodes[i].name = name
CostAdj(adj, w) == [v \in DOMAIN adj |-> [k \in DOMAIN adj[v] |-> <<adj[v][k][1], IF w THEN adj[v][k][2] ELSE 1>>]]

DijkstraCallOK(g, adj, w, s, c) ==
  LET n == Len(g.nodes)
      opts == [target |-> IF c.target = 0 THEN 0 ELSE PosOf(g, c.target), cutoff |-> c.cutoff,
               first_only |-> c.first_only, with_paths |-> TRUE]
      nameOf(i) == g.nodes[i].name
  IN \A A \in {Answer(Run(n, adj, PosOf(g, s), opts), opts)} :
       /\ {c.raw[i][1] : i \in DOMAIN c.raw} = {nameOf(v) : v \in DOMAIN A}
       /\ \A i \in DOMAIN c.raw :
             LET v == PosOf(g, c.raw[i][1]) IN
             v \in DOMAIN A =>
                c.raw[i][2] = [k \in DOMAIN A[v].paths |-> [j \in DOMAIN A[v].paths[k] |-> nameOf(A[v].paths[k][j])]]

DijkstraMechChecks(g, a) ==
  <<<<"search_loop", \A i \in DOMAIN a.ss :
        \A adj \in {Strict(CostAdj(a.adj, a.ss[i].weighted))} :
          \A k \in DOMAIN a.ss[i].calls :
             LET c == a.ss[i].calls[k] IN
             (c.has_raw /\ c.ans.e = "" /\ Len(a.adj) = Len(g.nodes)) => DijkstraCallOK(g, adj, a.ss[i].weighted, a.ss[i].s, c)>>>>

(* Graphs with 2^64 and more shortest paths between some pairs: beyond the exact oracle (TLC's integers are
   32-bit).  What is judged: the call returns one finite, non-negative entry per node, and the identity
   sum of raw hop-count betweenness = sum over connected ordered pairs of (distance - 1) (halved when
   undirected) holds to 1e-6 relative; the harness computes both sides (logged as rel_err_e9). *)
BigCountChecks(a) ==
  <<<<"betweenness", \A i \in DOMAIN a.big :
        LET c == a.big[i] IN
        /\ c.e = "" /\ c.entries_ok /\ c.finite /\ c.nonneg
        /\ c.rel_err_e9 <= 1000>>>>

(* C08 on weights that are not exactly representable: the exact oracle does not apply, but the property is a
   relation between the library's own answers - a cutoff / a target restricts the unrestricted answer and
   never changes a distance (bit patterns) or the path set of the target.  The harness logs both sides. *)
OptionsFloatChecks(a) ==
  <<<<"single_source", \A i \in DOMAIN a.rows : a.rows[i].got = a.rows[i].want>>>>

Report(e, group, checks) ==
  LET f == FailedOf(checks) IN
  IF f = {} THEN TRUE ELSE PrintT("NONCONF " \o ToString(e.id) \o " " \o group \o " " \o ToString(f))

Consume(e) ==
  IF e.res = "Panic" THEN PrintT("NONCONF " \o ToString(e.id) \o " " \o e.op.suite \o " {\"panic\"}")
  ELSE LET g == ToGraph(e.post) IN
       CASE e.op.suite = "paths" -> /\ Report(e, "paths", PathsChecks(g, e.a))
                                    /\ Report(e, "dijkstra_mech", DijkstraMechChecks(g, e.a))
         [] e.op.suite = "centrality" -> Report(e, "centrality", CentralityChecks(g, e.a))
         [] e.op.suite = "centrality_big" -> Report(e, "centrality", BigCountChecks(e.a))
         [] e.op.suite = "options_float" -> Report(e, "paths", OptionsFloatChecks(e.a))
         [] e.op.suite = "weighted" -> /\ Report(e, "algo", PathsChecks(g, e.a))
                                       /\ Report(e, "algo", CentralityChecks(g, e.a))
         [] e.op.suite = "components" -> Report(e, "components", ComponentsChecks(g, e.a))
         [] e.op.suite = "cluster" -> Report(e, "cluster", ClusterChecks(g, e.a))
         [] e.op.suite = "partitions" -> Report(e, "partitions", PartitionChecks(g, e.a))
         [] e.op.suite = "eigen" -> IF g.specs.multi THEN TRUE     \* C18 speaks of single-edge graphs
                                    ELSE Report(e, "eigen", EigenChecks(g, e.a))
         [] e.op.suite = "api" -> Report(e, "api", ApiChecks(g, e.a))
         [] e.op.suite = "louvain" -> /\ Report(e, "louvain", LouvainChecks(g, e.a))
                                      /\ Report(e, "louvain_mech", MechChecks(g, e.a))
         [] OTHER -> PrintT("NONCONF " \o ToString(e.id) \o " unknown_suite {}")

Init == l = 1
Next == l <= Len(Rec) /\ Consume(Rec[l]) /\ l' = l + 1
Spec == Init /\ [][Next]_l

AllConsumed == IF TLCGet("stats").diameter = Len(Rec) + 1 THEN TRUE
               ELSE PrintT(<<"INCOMPLETE", TLCGet("stats").diameter, Len(Rec)>>) /\ FALSE
=============================================================================
