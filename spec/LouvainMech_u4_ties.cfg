SPECIFICATION Spec
CONSTANTS
  N = 4
  Directed = FALSE
  WSet <- W1
  NbrRule = "in_and_out"
  TieRule = "any"
INVARIANT IsPartitionInv
INVARIANT TieFree
PROPERTY MoveIncreasesModularity
PROPERTY Terminates
CHECK_DEADLOCK FALSE
