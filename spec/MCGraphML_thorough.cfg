SPECIFICATION Spec
CONSTANTS
  NameU <- MC_NameU
  WeightU <- MC_WeightU
  AttrU <- MC_AttrU
  EdgeAttrU <- MC_EdgeAttrU
  SpecsU <- MC_SpecsU
  MaxEdges = 3
CONSTRAINT Bounded
VIEW View
INVARIANT InvRoundTrip
CHECK_DEADLOCK FALSE
