----------------------------- MODULE MonitorGen -----------------------------
(***************************************************************************)
(* Trace monitor for the generators (C16).  Events:                        *)
(*   gnp_run     aggregated facts of S seeded runs for one (n, p, kind)    *)
(*   gnp_extreme one run with an extreme probability                       *)
(*   gnp_arg     a call with p outside (0,1)                               *)
(*   gnp_skips   one run together with the skip sequence the library drew; *)
(*               replayed through GnpRules!Run  (binding of the model)     *)
(*   complete    complete_graph(n, directed); complete_big: counts only     *)
(*   karate      karate_club_graph()                                       *)
(* The statistical thresholds are held here; the harness only logs integer *)
(* totals and the excess over the allowance in thousandths of a standard   *)
(* deviation (TLC has no reals).                                           *)
(***************************************************************************)
EXTENDS GnpRules, Json, IOUtils

Rec == ndJsonDeserialize(IOEnv.TRACE)
VARIABLES l

SigmaLimitMilli == 6000       \* 6 standard deviations

FailedOf(checks) == {checks[i][1] : i \in {j \in DOMAIN checks : ~checks[j][2]}}
Report(e, group, checks) ==
  LET f == FailedOf(checks) IN
  IF f = {} THEN TRUE ELSE PrintT("NONCONF " \o ToString(e.id) \o " " \o group \o " " \o ToString(f))

RunChecks(e) ==
  <<<<"succeeds", e.errors = 0 /\ e.panics = 0>>,
    <<"nodes_are_0_to_n", e.bad_nodes = 0>>,
    <<"no_self_loops", e.loops = 0>>,
    <<"no_repeated_pair", e.repeats = 0>>,
    <<"endpoints_in_range", e.out_of_range = 0>>,
    <<"kind", e.wrong_kind = 0>>,
    <<"mean_edge_count", e.z_milli <= SigmaLimitMilli>>,
    <<"every_pair_occurs", e.tracked => e.pair_missing = 0>>,
    <<"pair_frequency", e.tracked => e.pair_z_milli <= SigmaLimitMilli>>>>

ExtremeChecks(e) ==
  <<<<"succeeds", e.r.e = "">>,
    <<"well_formed", e.r.e = "" => (e.r.nodes_ok /\ e.r.loops = 0 /\ e.r.repeats = 0 /\ e.r.out_of_range = 0)>>>>

ArgChecks(e) == <<<<"invalid_argument", e.e = "InvalidArgument">>>>

(* binding: the library's output is the model's run on the library's own skips *)
SkipChecks(e) ==
  <<<<"model_replay", e.e = "" /\ LET r == Run(e.n, e.directed, e.skips)
                                 IN {<<e.edges[i][1], e.edges[i][2]>> : i \in DOMAIN e.edges} = {r[i] : i \in DOMAIN r}
                                    /\ Len(e.edges) = Len(r)>>>>

CompleteChecks(e) ==
  <<<<"succeeds", e.r.e = "">>,
    <<"nodes", e.r.e = "" => e.r.names = [i \in 1..e.n |-> i - 1]>>,
    <<"edges", e.r.e = "" =>
         /\ {<<e.r.edges[i][1], e.r.edges[i][2]>> : i \in DOMAIN e.r.edges} = CompleteEdges(e.n, e.directed)
         /\ Len(e.r.edges) = Cardinality(CompleteEdges(e.n, e.directed))>>,
    <<"kind", e.r.e = "" => (e.r.directed = e.directed /\ ~e.r.multi /\ e.r.loops = 0)>>>>

(* large n: the harness logs counts instead of the edge list.  m pairwise distinct non-loop pairs over 0..n-1 *)
(* with m the number of all such pairs are all of them, each once                                            *)
CompleteBigChecks(e) ==
  <<<<"succeeds", e.r.e = "">>,
    <<"nodes", e.r.e = "" => e.r.nodes_ok>>,
    <<"edges", e.r.e = "" =>
         /\ e.r.loops = 0 /\ e.r.repeats = 0 /\ e.r.out_of_range = 0
         /\ e.r.m = IF e.directed THEN e.n * (e.n - 1) ELSE (e.n * (e.n - 1)) \div 2>>,
    <<"kind", e.r.e = "" => (e.r.directed = e.directed /\ ~e.r.multi)>>>>

KarateChecks(e) ==
  <<<<"karate", /\ e.r.e = "" /\ e.r.nodes_ok /\ e.r.m = KarateEdges
                /\ ~e.r.directed /\ ~e.r.multi /\ e.r.loops = 0 /\ e.r.repeats = 0 /\ e.r.out_of_range = 0>>>>

Consume(e) ==
  CASE e.op.k = "gnp_run" -> Report(e, "gnp", RunChecks(e))
    [] e.op.k = "gnp_extreme" -> Report(e, "gnp_extreme", ExtremeChecks(e))
    [] e.op.k = "gnp_arg" -> Report(e, "gnp_arg", ArgChecks(e))
    [] e.op.k = "gnp_skips" -> Report(e, "binding", SkipChecks(e))
    [] e.op.k = "complete" -> Report(e, "complete", CompleteChecks(e))
    [] e.op.k = "complete_big" -> Report(e, "complete", CompleteBigChecks(e))
    [] e.op.k = "karate" -> Report(e, "karate", KarateChecks(e))
    [] OTHER -> PrintT("NONCONF " \o ToString(e.id) \o " unknown {}")

Init == l = 1
Next == l <= Len(Rec) /\ Consume(Rec[l]) /\ l' = l + 1
Spec == Init /\ [][Next]_l
AllConsumed == IF TLCGet("stats").diameter = Len(Rec) + 1 THEN TRUE
               ELSE PrintT(<<"INCOMPLETE", TLCGet("stats").diameter, Len(Rec)>>) /\ FALSE
=============================================================================
