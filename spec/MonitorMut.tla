----------------------------- MODULE MonitorMut -----------------------------
(***************************************************************************)
(* Trace monitor for mutation traces recorded from the real library.       *)
(*                                                                         *)
(* The trace is a forest: event e was executed on the graph left by event  *)
(* e.parent (0 = none).  For every event the monitor evaluates the rules   *)
(* of GraphRules on the parent's logged post-state and compares result and *)
(* post-state with what the library did; checks the hook snapshot against  *)
(* the derived store of GraphStore; and (query events) the read-API table  *)
(* against GraphQuery.  It never stops at a non-conformance: it prints     *)
(*     <<"NONCONF", id, group, {failed checks}>>                           *)
(* adopts the logged state and goes on, so every event is examined.        *)
(***************************************************************************)
EXTENDS GraphDerive, Json, IOUtils

Rec == ndJsonDeserialize(IOEnv.TRACE)

VARIABLES l,      \* next event to consume
          g       \* abstract state after the last consumed event

PreOf(e) == ToGraph(Rec[e.parent].post)

Expected(pre, op) ==
  IF op.k \in {"add_node", "add_nodes"}
    THEN [res |-> "Ok", g |-> AddNodesRule(pre, ToNodes(op.ns))]
    ELSE AddEdgesRule(pre, ToEdgeArgs(op.es))

(* C01: outcome and resulting state are exactly those the rules dictate *)
MutChecks(e) ==
  IF e.res = "Panic" THEN <<<<"panic", FALSE>>>>
  ELSE IF e.op.k = "new" THEN
    LET post == ToGraph(e.post) IN
    <<<<"res", e.res = "Ok">>, <<"post", post = EmptyGraph(post.specs)>>, <<"wellformed", WellFormed(post)>>>>
  ELSE IF e.op.k = "state" THEN
    (* a graph met in a recorded execution (the state before a recorded call) *)
    <<<<"wellformed", WellFormed(ToGraph(e.post))>>>>
  ELSE IF e.op.k = "new_from" THEN
    LET x == NewFromRule(e.op.specs, ToNodes(e.op.ns), ToEdgeArgs(e.op.es)) IN
    <<<<"res", e.res = x.res>>,
      <<"post", x.res = "Ok" => ToGraph(e.post) = x.g>>,
      <<"wellformed", x.res = "Ok" => WellFormed(ToGraph(e.post))>>>>
  ELSE
    LET pre == PreOf(e)
        x == Expected(pre, e.op)
        post == ToGraph(e.post)
    IN <<<<"res", e.res = x.res>>,
         <<"post_nodes", post.nodes = x.g.nodes>>,
         <<"post_edges", post.edges = x.g.edges>>,
         <<"post_specs", post.specs = pre.specs>>,
         <<"wellformed", WellFormed(post)>>,
         <<"rejected_changes_nothing", (e.res # "Ok" /\ e.op.k \in {"add_edge", "add_edge_tuple"}) => post = pre>>>>

DeriveKinds == {"subgraph", "reverse", "set_weights", "to_single"}

(* C15: the derived graph is exactly as specified, satisfies C01's well-formedness
   for its own specs, and the source graph is left unchanged *)
DeriveChecks(e) ==
  IF e.res = "Panic" THEN <<<<"panic", FALSE>>>>
  ELSE LET pre == PreOf(e)
           x == DeriveRule(pre, e.op)
           post == ToGraph(e.post)
       IN <<<<"res", e.res = x.res>>,
            <<"derived_nodes", x.res = "Ok" => post.nodes = x.g.nodes>>,
            <<"derived_edges", x.res = "Ok" => post.edges = x.g.edges>>,
            <<"derived_specs", x.res = "Ok" => post.specs = x.g.specs>>,
            <<"wellformed", WellFormed(post)>>>>

DeriveSrcChecks(e) ==
  IF e.res = "Panic" THEN <<>> ELSE <<<<"source_unchanged", e.src_after = Rec[e.parent].post>>>>

(* C02 (indexes): every private index describes the logged abstract state *)
SnapChecks(e) ==
  LET post == ToGraph(e.post) IN
  <<<<"snap_nodes", SnapNodes(post, e.snap)>>,
    <<"snap_edges_by_name", SnapEdgesN(post, e.snap)>>,
    <<"snap_edges_by_position", SnapEdgesI(post, e.snap)>>,
    <<"snap_adjacency_by_name", SnapAdjN(post, e.snap)>>,
    <<"snap_adjacency_by_position", SnapAdjI(post, e.snap)>>>>

(* C03: the traversal index holds the stored neighbours with the least stored weight *)
VecChecks(e) ==
  LET post == ToGraph(e.post) IN
  <<<<"vec_neighbours", SnapVecSets(post, e.snap)>>,
    <<"vec_weights", e.uniform => SnapVecWeights(post, e.snap)>>>>

Report(e, group, checks) ==
  LET f == FailedOf(checks) IN IF f = {} THEN TRUE ELSE PrintT("NONCONF " \o ToString(e.id) \o " " \o group \o " " \o ToString(f))

Consume(e) ==
  IF e.op.k = "query" THEN
       IF e.res = "Panic" THEN PrintT("NONCONF " \o ToString(e.id) \o " query {\"panic\"}")
       ELSE /\ Report(e, IF Rec[e.parent].op.k \in DeriveKinds THEN "derived_query" ELSE "query",
                      QueryChecks(ToGraph(e.post), e.q))
            /\ Report(e, "counts", CountChecks(ToGraph(e.post), e.q))
            /\ Report(e, "query_state", <<<<"state_unchanged", e.post = Rec[e.parent].post>>>>)
  ELSE /\ IF e.op.k \in DeriveKinds
            THEN Report(e, "derive", DeriveChecks(e)) /\ Report(e, "derive_src", DeriveSrcChecks(e))
            ELSE Report(e, "mut", MutChecks(e))
       /\ (e.has_snap => Report(e, IF e.op.k \in DeriveKinds THEN "derived_snap" ELSE "snap", SnapChecks(e)))
       /\ (e.has_snap => Report(e, IF e.op.k \in DeriveKinds THEN "derived_vec" ELSE "vec", VecChecks(e)))

Init == l = 1 /\ g = <<>>

Next == /\ l <= Len(Rec)
        /\ Consume(Rec[l])
        /\ g' = Rec[l].post
        /\ l' = l + 1

Spec == Init /\ [][Next]_<<l, g>>

View == l

(* every event was consumed *)
AllConsumed == IF TLCGet("stats").diameter = Len(Rec) + 1 THEN TRUE
               ELSE PrintT(<<"INCOMPLETE", TLCGet("stats").diameter, Len(Rec)>>) /\ FALSE
=============================================================================
