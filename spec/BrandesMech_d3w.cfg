SPECIFICATION Spec
CONSTANTS
  N = 3
  Directed = TRUE
  WSet <- W123
  OnImprove = "reset"
INVARIANTS
  SearchCorrect
  DependencyCorrect
PROPERTIES
  Terminates
CHECK_DEADLOCK FALSE
