SPECIFICATION MSpec
CONSTANTS
  K = 17
  MCItems = 0
  MCMode = "keyed"
INVARIANT MonInv
CHECK_DEADLOCK FALSE
