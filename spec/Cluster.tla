------------------------------- MODULE Cluster -------------------------------
(***************************************************************************)
(* C11: triangles, generalised degree, transitivity, clustering            *)
(* (undirected; Fagiolo's directed form; the weighted geometric-mean forms *)
(* normalised by the largest weight) and square clustering, as exact       *)
(* rationals.  Single-edge graphs only.  Self-loops never count: every     *)
(* neighbour set excludes the node itself.                                 *)
(*                                                                         *)
(* Weighted forms need cube roots.  Cases use weights that are perfect     *)
(* cubes (1, 8, 27, ...), so that with w = c^3 and largest weight M = m^3  *)
(* the term  cbrt(w1/M * w2/M * w3/M)  is the rational  c1*c2*c3 / m^3.    *)
(***************************************************************************)
EXTENDS Components

Nb(g, v) == NeighborNames(g, v) \ {v}       \* undirected neighbours, or preds + succs
Sc(g, v) == SuccNames(g, v) \ {v}
Pd(g, v) == PredNames(g, v) \ {v}

Pairs2(S) == {p \in S \X S : p[1] < p[2]}

(* --- undirected, unweighted --------------------------------------------- *)
Adjacent(g, u, w) == w \in NeighborNames(g, u)
Triangles(g, v) == Cardinality({p \in Pairs2(Nb(g, v)) : Adjacent(g, p[1], p[2])})
DegreeNoLoop(g, v) == Cardinality(Nb(g, v))

ClusteringU(g, v) ==
  LET d == DegreeNoLoop(g, v)
      t == Triangles(g, v)
  IN IF t = 0 THEN <<0, 1>> ELSE Frac(2 * t, d * (d - 1))

(* histogram: triangle multiplicity of each edge at v -> number of such edges *)
GenDegree(g, v) ==
  LET mult(u) == Cardinality(Nb(g, u) \cap Nb(g, v))
      ms == {mult(u) : u \in Nb(g, v)}
  IN {<<m, Cardinality({u \in Nb(g, v) : mult(u) = m})>> : m \in ms}

Transitivity(g) ==
  LET tri == SumOver(Names(g), LAMBDA v : 2 * Triangles(g, v))
      con == SumOver(Names(g), LAMBDA v : DegreeNoLoop(g, v) * (DegreeNoLoop(g, v) - 1))
  IN IF tri = 0 THEN <<0, 1>> ELSE Frac(tri, con)

(* --- square clustering (undirected) -------------------------------------- *)
SquareClustering(g, v) ==
  LET ps == Pairs2(Nb(g, v))
      sq(p) == Cardinality((Nb(g, p[1]) \cap Nb(g, p[2])) \ {v})
      degm(p) == sq(p) + 1 + (IF p[2] \in Nb(g, p[1]) THEN 1 ELSE 0)
      pot(p) == (Cardinality(Nb(g, p[1])) - degm(p)) + (Cardinality(Nb(g, p[2])) - degm(p)) + sq(p)
      num == SumOver(ps, sq)
      den == SumOver(ps, pot)
  IN IF den > 0 THEN Frac(num, den) ELSE <<0, 1>>

(* --- directed, unweighted (Fagiolo) -------------------------------------- *)
DirTriangles(g, i) ==
  LET P == Pd(g, i)
      S == Sc(g, i)
      f(j) == Cardinality(P \cap Pd(g, j)) + Cardinality(P \cap Sc(g, j))
              + Cardinality(S \cap Pd(g, j)) + Cardinality(S \cap Sc(g, j))
  IN SumOver(P, f) + SumOver(S, f)

DirDenominator(g, i) ==
  LET dt == Cardinality(Pd(g, i)) + Cardinality(Sc(g, i))
      db == Cardinality(Pd(g, i) \cap Sc(g, i))
  IN 2 * (dt * (dt - 1) - 2 * db)

ClusteringD(g, i) ==
  LET t == DirTriangles(g, i) IN IF t = 0 THEN <<0, 1>> ELSE Frac(t, DirDenominator(g, i))

(* --- weighted forms -------------------------------------------------------- *)
Cbrt(w) == CHOOSE r \in 0..w : r * r * r = w
AllCubes(g) == \A k \in Keys(g) : g.edges[k][1].w >= 1 /\ \E r \in 1..g.edges[k][1].w : r * r * r = g.edges[k][1].w
MaxW(g) == LET S == {g.edges[k][1].w : k \in Keys(g)} IN CHOOSE x \in S : \A y \in S : y <= x
(* cube root of the weight of the edge stored from u to v (either orientation when undirected) *)
C(g, u, v) == Cbrt(EdgesAt(g, u, v)[1].w)

ClusteringUW(g, v) ==
  LET d == DegreeNoLoop(g, v)
      tris == {p \in Pairs2(Nb(g, v)) : Adjacent(g, p[1], p[2])}
      s == SumOver(tris, LAMBDA p : C(g, v, p[1]) * C(g, p[1], p[2]) * C(g, p[2], v))
  IN IF s = 0 THEN <<0, 1>> ELSE Frac(2 * s, MaxW(g) * d * (d - 1))

DirTrianglesW(g, i) ==
  LET P == Pd(g, i)
      S == Sc(g, i)
      (* base is the cube root of the edge between i and j in its actual direction *)
      f(j, base) ==
          SumOver(P \cap Pd(g, j), LAMBDA k : base * C(g, k, i) * C(g, k, j))
        + SumOver(P \cap Sc(g, j), LAMBDA k : base * C(g, k, i) * C(g, j, k))
        + SumOver(S \cap Pd(g, j), LAMBDA k : base * C(g, i, k) * C(g, k, j))
        + SumOver(S \cap Sc(g, j), LAMBDA k : base * C(g, i, k) * C(g, j, k))
  IN SumOver(P, LAMBDA j : f(j, C(g, j, i))) + SumOver(S, LAMBDA j : f(j, C(g, i, j)))

ClusteringDW(g, i) ==
  LET t == DirTrianglesW(g, i) IN IF t = 0 THEN <<0, 1>> ELSE Frac(t, MaxW(g) * DirDenominator(g, i))

Clustering(g, weighted, v) ==
  IF g.specs.directed THEN (IF weighted THEN ClusteringDW(g, v) ELSE ClusteringD(g, v))
  ELSE (IF weighted THEN ClusteringUW(g, v) ELSE ClusteringU(g, v))

(* mean of the counted coefficients; undefined (no requirement) when none is counted *)
AverageClustering(g, weighted, S, countZeros) ==
  LET cs == [v \in S |-> Clustering(g, weighted, v)]
      T == IF countZeros THEN S ELSE {v \in S : cs[v][1] # 0}
      sum == SumRats(T, LAMBDA v : cs[v])
  IN IF T = {} THEN <<0, 0>> ELSE Frac(sum[1], sum[2] * Cardinality(T))

(* For larger graphs the exact mean does not fit TLC's 32-bit integers (the common denominator of
   20 coefficients).  There the mean is judged to 7 decimals: the sum of the coefficients, each
   truncated to 7 decimals, against the logged mean times the number of counted nodes. *)
AverageMatchesApprox(g, weighted, S, countZeros, logged) ==
  LET cs == Strict([v \in S |-> Clustering(g, weighted, v)])
      T == IF countZeros THEN S ELSE {v \in S : cs[v][1] # 0}
      k == Cardinality(T)
      sum7 == SumOver(T, LAMBDA v : Scaled7(cs[v][1], cs[v][2]))
      l7 == IF logged[2] = -1 THEN logged[1] * 10 ELSE IF logged[2] > 0 /\ logged[1] >= 0 THEN Scaled7(logged[1], logged[2]) ELSE -1
  IN k = 0 \/ (l7 >= 0 /\ Abs(l7 * k - sum7) <= 8 * k)

---------------------------------------------------------------------------
(* Judging logged answers.  A map answer is a sequence of <<name, value>>.  *)

MapOver(ans, S, F(_)) ==
  /\ ans.e = ""
  /\ {ans.v[i][1] : i \in DOMAIN ans.v} = S
  /\ Len(ans.v) = Cardinality(S)
  /\ \A i \in DOMAIN ans.v : ans.v[i][1] \in S => ans.v[i][2] = F(ans.v[i][1])

RatMapOver(ans, S, F(_)) ==
  /\ ans.e = ""
  /\ {ans.v[i][1] : i \in DOMAIN ans.v} = S
  /\ Len(ans.v) = Cardinality(S)
  /\ \A i \in DOMAIN ans.v : ans.v[i][1] \in S => RatMatches(ans.v[i][2], F(ans.v[i][1]))

InUnit(r) == IF r[2] = -1 THEN r[1] >= 0 /\ r[1] <= 1000000 ELSE r[2] > 0 /\ r[1] >= 0 /\ r[1] <= r[2]

(* the node set a call speaks about: the whole graph, or the given subset *)
Scope(g, c) == IF c.all THEN Names(g) ELSE Range(c.nodes)

ClusterChecks(g, a) ==
  LET multi == g.specs.multi
      dir == g.specs.directed
  IN
  <<
    <<"clustering", \A i \in DOMAIN a.clustering :
        LET c == a.clustering[i] IN
        IF multi THEN c.ans.e = "WrongMethod"
        ELSE IF c.weighted /\ HasNaNAt(g, Keys(g)) THEN c.ans.e = "EdgeWeightNotSpecified"
        ELSE (c.weighted => AllCubes(g)) =>
               /\ RatMapOver(c.ans, Scope(g, c), LAMBDA v : Clustering(g, c.weighted, v))
               /\ \A j \in DOMAIN c.ans.v : InUnit(c.ans.v[j][2])>>,
    <<"average_clustering", \A i \in DOMAIN a.average :
        LET c == a.average[i] IN
        IF multi THEN c.ans.e = "WrongMethod"
        ELSE IF c.weighted /\ HasNaNAt(g, Keys(g)) THEN c.ans.e = "EdgeWeightNotSpecified"
        ELSE (c.weighted => AllCubes(g)) =>
               IF Cardinality(Names(g)) > 12
                 THEN c.ans.e = "" => AverageMatchesApprox(g, c.weighted, Scope(g, c), c.count_zeros, c.ans.v)
                 ELSE \A x \in {AverageClustering(g, c.weighted, Scope(g, c), c.count_zeros)} :
                         x[2] # 0 => (c.ans.e = "" /\ RatMatches(c.ans.v, x))>>,
    <<"triangles", \A i \in DOMAIN a.triangles :
        LET c == a.triangles[i] IN
        IF dir \/ multi THEN c.ans.e = "WrongMethod"
        ELSE MapOver(c.ans, Scope(g, c), LAMBDA v : Triangles(g, v))>>,
    <<"generalized_degree", \A i \in DOMAIN a.gendeg :
        LET c == a.gendeg[i] IN
        IF dir \/ multi THEN c.ans.e = "WrongMethod"
        ELSE /\ c.ans.e = ""
             /\ {c.ans.v[j][1] : j \in DOMAIN c.ans.v} = Scope(g, c)
             /\ Len(c.ans.v) = Cardinality(Scope(g, c))
             /\ \A j \in DOMAIN c.ans.v :
                   c.ans.v[j][1] \in Names(g) =>
                      /\ Range(c.ans.v[j][2]) = GenDegree(g, c.ans.v[j][1])
                      /\ Len(c.ans.v[j][2]) = Cardinality(GenDegree(g, c.ans.v[j][1]))>>,
    <<"transitivity",
        IF dir \/ multi THEN a.transitivity.e = "WrongMethod"
        ELSE a.transitivity.e = "" /\ RatMatches(a.transitivity.v, Transitivity(g)) /\ InUnit(a.transitivity.v)>>,
    <<"square_clustering", \A i \in DOMAIN a.square :
        LET c == a.square[i] IN
        (~dir /\ ~multi) =>
           /\ RatMapOver(c.ans, Scope(g, c), LAMBDA v : SquareClustering(g, v))
           /\ \A j \in DOMAIN c.ans.v : InUnit(c.ans.v[j][2])>>
  >>
=============================================================================
