---------------------------- MODULE GraphRules ----------------------------
(***************************************************************************)
(* The mutation rules of a graphrs Graph, as an abstract state machine.    *)
(*                                                                         *)
(* Abstract state of one Graph object:                                     *)
(*   g.specs : the six GraphSpecs fields                                   *)
(*   g.nodes : sequence of [name, attr] in position (insertion) order      *)
(*   g.edges : function  pair key -> non-empty sequence of [w, a]          *)
(*             (the edges stored for that pair, in insertion order)        *)
(* A pair key is <<u,v>>; on an undirected graph it is normalised so that  *)
(* u <= v in NAME order (the library stores `edge.ordered()`).             *)
(*                                                                         *)
(* Names are integers; their natural order is the name order (Ord).        *)
(* Weights are integers, NaN (= unweighted) is written -1.                 *)
(* Attributes are integers used as identity tags, 0 = None.                *)
(*                                                                         *)
(* `AddEdgeRule` is the policy ladder of Graph::add_edge, in the order     *)
(* the library applies it:                                                 *)
(*   1. self-loop on a graph that forbids them -> SelfLoopsFound / dropped *)
(*   2. missing endpoint under MissingNodeStrategy::Error -> NodeNotFound  *)
(*   3. create u, then v                                                   *)
(*   4. existing pair on a single-edge graph under Error -> DuplicateEdge  *)
(*   5. store: append (multi) / insert / replace (KeepLast) / ignore       *)
(***************************************************************************)
EXTENDS Integers, Sequences, FiniteSets, TLC

NaN == -1

DedupeStrategies == {"Error", "KeepFirst", "KeepLast"}
MissingStrategies == {"Create", "Error"}
LoopFalseStrategies == {"Error", "Drop"}

AllSpecs ==
  [directed : BOOLEAN, multi : BOOLEAN, loops : BOOLEAN,
   dedupe : DedupeStrategies, missing : MissingStrategies,
   loopfalse : LoopFalseStrategies]

EmptyGraph(specs) == [specs |-> specs, nodes |-> <<>>, edges |-> <<>>]

---------------------------------------------------------------------------
(* Reading the abstract state *)

NameSeq(g) == [i \in DOMAIN g.nodes |-> g.nodes[i].name]
Names(g) == {g.nodes[i].name : i \in DOMAIN g.nodes}
HasNode(g, n) == n \in Names(g)
Pos(g, n) == CHOOSE i \in DOMAIN g.nodes : g.nodes[i].name = n   \* 1-based position

Key(g, u, v) == IF g.specs.directed \/ u <= v THEN <<u, v>> ELSE <<v, u>>
Keys(g) == DOMAIN g.edges
HasPair(g, u, v) == Key(g, u, v) \in Keys(g)
EdgesAt(g, u, v) == IF HasPair(g, u, v) THEN g.edges[Key(g, u, v)] ELSE <<>>

---------------------------------------------------------------------------
(* The rules.  Each returns [res |-> "Ok" or an error kind, g |-> new state] *)

AddNodeRule(g, n, a) ==
  IF HasNode(g, n)
    THEN [g EXCEPT !.nodes = [i \in DOMAIN g.nodes |->
                                 IF g.nodes[i].name = n THEN [name |-> n, attr |-> a]
                                                        ELSE g.nodes[i]]]
    ELSE [g EXCEPT !.nodes = Append(@, [name |-> n, attr |-> a])]

EnsureNode(g, n) ==
  IF HasNode(g, n) THEN g ELSE [g EXCEPT !.nodes = Append(@, [name |-> n, attr |-> 0])]

(* e = [u, v, w, a] *)
AddEdgeRule(g, e) ==
  LET s == g.specs IN
  IF ~s.loops /\ e.u = e.v THEN
       IF s.loopfalse = "Error" THEN [res |-> "SelfLoopsFound", g |-> g]
                                ELSE [res |-> "Ok", g |-> g]
  ELSE IF s.missing = "Error" /\ (~HasNode(g, e.u) \/ ~HasNode(g, e.v)) THEN
       [res |-> "NodeNotFound", g |-> g]
  ELSE
    LET g1 == EnsureNode(EnsureNode(g, e.u), e.v)
        k == Key(g, e.u, e.v)
        exists == k \in DOMAIN g1.edges
        rec == [w |-> e.w, a |-> e.a]
    IN IF s.dedupe = "Error" /\ ~s.multi /\ exists THEN
            [res |-> "DuplicateEdge", g |-> g]
       ELSE
         LET newE ==
               IF ~exists THEN (k :> <<rec>>) @@ g1.edges
               ELSE IF s.multi THEN [g1.edges EXCEPT ![k] = Append(@, rec)]
               ELSE IF s.dedupe = "KeepLast" THEN [g1.edges EXCEPT ![k] = <<rec>>]
               ELSE g1.edges
         IN [res |-> "Ok", g |-> [g1 EXCEPT !.edges = newE]]

RECURSIVE AddEdgesRule(_, _)
AddEdgesRule(g, es) ==
  IF es = <<>> THEN [res |-> "Ok", g |-> g]
  ELSE LET r == AddEdgeRule(g, Head(es))
       IN IF r.res # "Ok" THEN r ELSE AddEdgesRule(r.g, Tail(es))

RECURSIVE AddNodesRule(_, _)
AddNodesRule(g, ns) ==
  IF ns = <<>> THEN g ELSE AddNodesRule(AddNodeRule(g, Head(ns).name, Head(ns).attr), Tail(ns))

(* new_from_nodes_and_edges: on error no graph is returned at all *)
NewFromRule(specs, ns, es) == AddEdgesRule(AddNodesRule(EmptyGraph(specs), ns), es)

---------------------------------------------------------------------------
(* Well-formedness of an abstract state: what C01 promises of every       *)
(* reachable graph.                                                        *)

WellFormed(g) ==
  /\ \A i, j \in DOMAIN g.nodes : g.nodes[i].name = g.nodes[j].name => i = j
  /\ \A k \in Keys(g) :
        /\ k[1] \in Names(g) /\ k[2] \in Names(g)
        /\ Len(g.edges[k]) >= 1
        /\ (~g.specs.multi => Len(g.edges[k]) = 1)
        /\ (~g.specs.loops => k[1] # k[2])
        /\ (~g.specs.directed => k[1] <= k[2])

NumEdges(g) ==
  LET RECURSIVE S(_)
      S(ks) == IF ks = {} THEN 0 ELSE LET k == CHOOSE x \in ks : TRUE IN Len(g.edges[k]) + S(ks \ {k})
  IN S(Keys(g))

=============================================================================
