SPECIFICATION Spec
CONSTANTS
  N = 3
  Directed = TRUE
  WSet <- W12
  NbrRule = "in_and_out"
  TieRule = "ascending"
INVARIANT IsPartitionInv

PROPERTY MoveIncreasesModularity
PROPERTY Terminates
CHECK_DEADLOCK FALSE
