SPECIFICATION Spec
CONSTANTS
  N = 3
  Directed = FALSE
  WSet <- W12
  Cutoffs <- C_none
  Buffers = "stale"
INVARIANTS
  Settled
  AtEnd
  RunAgrees
PROPERTIES
  Monotone
  Terminates
CHECK_DEADLOCK FALSE
