---------------------------- MODULE DijkstraRules ----------------------------
(***************************************************************************)
(* The search loop of dijkstra.rs (fn dijkstra) as pure operators with     *)
(* integer arithmetic, shaped like the code:                               *)
(*                                                                         *)
(*   dist    settled distance per node            (INF = not settled)      *)
(*   seen    best tentative distance per node     (INF = never reached)    *)
(*   fringe  set of heap entries <<d, count, node>>                        *)
(*   count   number of pushes so far                                       *)
(*   paths   per node the sequence of paths found so far (with_paths)      *)
(*                                                                         *)
(* The heap is a max-heap on (-distance, count, node index): the entry     *)
(* popped is the one with the least distance, among those the one pushed   *)
(* last, among those the largest node.  The neighbours of the settled node *)
(* are scanned in the stored order of the traversal list (adj), so that,   *)
(* given adj, the loop is deterministic: the order in which nodes are      *)
(* settled and the order of the returned paths are functions of adj.       *)
(*                                                                         *)
(* Nodes are positions 1..n here; adj[v] is a sequence of <<u, cost>>.     *)
(* opts.cutoff is twice the cutoff (-1 = none), as in the traces, so that   *)
(* midpoints between distances are integers.                               *)
(***************************************************************************)
EXTENDS Paths

(* the heap's choice *)
Top(fringe) ==
  CHOOSE x \in fringe : \A y \in fringe :
     \/ x[1] < y[1]
     \/ (x[1] = y[1] /\ x[2] > y[2])
     \/ (x[1] = y[1] /\ x[2] = y[2] /\ x[3] >= y[3])

Extend(ps, u) == [i \in DOMAIN ps |-> Append(ps[i], u)]

(* one iteration of the `for adj in successors(v)` loop over the rest `l` of v's list;
   st = [dist, seen, fringe, count, paths, err] *)
RECURSIVE Scan(_, _, _, _)
Scan(st, v, l, opts) ==
  IF l = <<>> \/ st.err THEN st
  ELSE
    LET u == Head(l)[1]
        vu == st.dist[v] + Head(l)[2]
        st2 ==
          IF opts.cutoff >= 0 /\ 2 * vu > opts.cutoff THEN st
          ELSE IF st.dist[u] # INF THEN
                 (IF vu < st.dist[u] THEN [st EXCEPT !.err = TRUE] ELSE st)
          ELSE IF vu < st.seen[u] THEN
                 [st EXCEPT !.seen[u] = vu,
                            !.count = st.count + 1,
                            !.fringe = st.fringe \cup {<<vu, st.count + 1, u>>},
                            !.paths[u] = Extend(st.paths[v], u)]
          ELSE IF ~opts.first_only /\ vu = st.seen[u] THEN
                 [st EXCEPT !.count = st.count + 1,
                            !.fringe = st.fringe \cup {<<vu, st.count + 1, u>>},
                            !.paths[u] = st.paths[u] \o Extend(st.paths[v], u)]
          ELSE st
    IN Scan(st2, v, Tail(l), opts)

(* state before the first pop; seen0 = the tentative distances the buffers start with
   (INF everywhere in the code as it is: fresh vectors per search) *)
Start(n, s, seen0) ==
  [dist |-> [v \in 1..n |-> INF],
   seen |-> [seen0 EXCEPT ![s] = 0],
   fringe |-> {<<0, 0, s>>},
   count |-> 0,
   paths |-> [v \in 1..n |-> IF v = s THEN <<<<s>>>> ELSE <<>>],
   err |-> FALSE, stop |-> FALSE, order |-> <<>>]

(* one `while let Some(item) = fringe.pop()` iteration *)
PopStep(st, adj, opts) ==
  LET x == Top(st.fringe)
      v == x[3]
      st1 == [st EXCEPT !.fringe = st.fringe \ {x}]
  IN IF st.dist[v] # INF THEN st1                        \* stale heap entry
     ELSE LET st2 == [st1 EXCEPT !.dist[v] = x[1], !.order = Append(st.order, v)]
          IN IF opts.target = v THEN [st2 EXCEPT !.stop = TRUE]
             ELSE Scan(st2, v, adj[v], opts)

Finished(st) == st.fringe = {} \/ st.stop \/ st.err

RECURSIVE RunFrom(_, _, _)
RunFrom(st, adj, opts) == IF Finished(st) THEN st ELSE RunFrom(PopStep(st, adj, opts), adj, opts)

(* the whole search: the final state *)
Run(n, adj, s, opts) == RunFrom(Start(n, s, [v \in 1..n |-> INF]), adj, opts)

(* the answer get_shortest_path_infos builds from the final state: per settled node its
   distance and its paths, in position order *)
Answer(st, opts) ==
  LET S == {v \in DOMAIN st.dist : st.dist[v] # INF}
  IN [v \in S |-> [d |-> st.dist[v], paths |-> IF opts.with_paths THEN st.paths[v] ELSE <<>>]]
=============================================================================
