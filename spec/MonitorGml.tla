----------------------------- MODULE MonitorGml -----------------------------
(***************************************************************************)
(* Trace monitor for GraphML (C14, C19).  Events:                          *)
(*   graphml_rt      a graph over concrete awkward names / weights was     *)
(*                   written (string and file) and read back; names and    *)
(*                   weights are logged as tokens (same string / same bit  *)
(*                   pattern = same token)                                 *)
(*   graphml_doc     a TLC-generated token document was rendered and read  *)
(*   graphml_corrupt aggregated outcome classes of all single-point        *)
(*                   corruptions of one well-formed document               *)
(***************************************************************************)
EXTENDS GraphML, Json, IOUtils

Rec == ndJsonDeserialize(IOEnv.TRACE)
VARIABLES l

Report(e, group, checks) ==
  LET f == FailedOf(checks) IN
  IF f = {} THEN TRUE ELSE PrintT("NONCONF " \o ToString(e.id) \o " " \o group \o " " \o ToString(f))

(* a JSON token list -> the token records of GraphML.tla (JSON objects are records already) *)
RtChecks(e) ==
  LET before == ToGraph(e.post) IN
  <<<<"read_back_ok", e.res = "Ok">>,
    <<"same_nodes_in_order", e.res = "Ok" => ToGraph(e.after).nodes = before.nodes>>,
    <<"same_directedness", e.res = "Ok" => e.after.specs.directed = e.post.specs.directed>>,
    <<"same_edges_and_weights", e.res = "Ok" => ToGraph(e.after).edges = before.edges>>,
    <<"file_equals_string", e.file_equals_string>>,
    <<"file_read_back", e.res = "Ok" => e.after_file = e.after>>,
    (* the abstract writer/reader pair agrees with what was observed *)
    <<"model_round_trip", WellFormed(before) => RoundTrip(before)>>>>

DocChecks(e) ==
  (* "NotRun": the harness stops reading documents after five reads of this run have hung *)
  <<<<"never_panics", e.outcome \in {"Ok", "Err", "NotRun"}>>,
    <<"contract", e.outcome \in {"Ok", "Err"} => ReadConforms(e.toks, e.specs, e.outcome, ToGraph(e.post))>>>>

CorruptChecks(e) == <<<<"never_panics", e.bad = 0>>>>

Consume(e) ==
  CASE e.op.k = "graphml_rt" -> Report(e, "roundtrip", RtChecks(e))
    [] e.op.k = "graphml_doc" -> Report(e, "reader", DocChecks(e))
    [] e.op.k = "graphml_corrupt" -> Report(e, "corruption", CorruptChecks(e))
    [] OTHER -> PrintT("NONCONF " \o ToString(e.id) \o " unknown {}")

Init == l = 1
Next == l <= Len(Rec) /\ Consume(Rec[l]) /\ l' = l + 1
Spec == Init /\ [][Next]_l
AllConsumed == IF TLCGet("stats").diameter = Len(Rec) + 1 THEN TRUE
               ELSE PrintT(<<"INCOMPLETE", TLCGet("stats").diameter, Len(Rec)>>) /\ FALSE
=============================================================================
