-------------------------------- MODULE Eigen --------------------------------
(***************************************************************************)
(* C18: the contract of eigenvector_centrality.                            *)
(*                                                                         *)
(* TLC has no reals: the floating-point quantities (error of the Euclidean *)
(* norm in units of 1e-12; the 1-norm residual of one further documented   *)
(* step x -> normalise(x + A^T x), divided by n*tol, in thousandths) are   *)
(* evaluated by the harness and logged as integers.  The specification     *)
(* holds the thresholds, the residual bound K and the convergence          *)
(* protocol.                                                               *)
(*                                                                         *)
(* Bound.  The result x is T(x') for the previous iterate x' with          *)
(* |x - x'|_1 < n*tol, where T(y) = M y / |M y|_2, M = I + A^T.  For       *)
(* non-negative y: |M y|_2 >= |y|_2 >= 1/sqrt(n) (first iterate) and       *)
(* |M(y - z)|_1 <= (1 + D) |y - z|_1 with D the largest weighted out-sum,  *)
(* so |T(x) - x|_1 = |T(x) - T(x')|_1 <= 2 n (1 + D) |x - x'|_1.  Hence    *)
(* residual / (n*tol) <= K = 2 n (1 + D) for every converged result; a     *)
(* non-converged vector, a right- instead of left-multiplication or a      *)
(* missing normalisation exceed it by orders of magnitude for small tol.   *)
(***************************************************************************)
EXTENDS Community

OutSum(g, weighted, n) ==
  LET ks == IF g.specs.directed THEN OutKeys(g, {n}) ELSE IncidentKeys(g, {n})
  IN IF weighted THEN SumOver(ks, LAMBDA k : IF g.edges[k][1].w = NaN THEN 1 ELSE g.edges[k][1].w) ELSE Cardinality(ks)

EigenK(g, weighted) ==
  LET n == Len(g.nodes)
      D == IF n = 0 THEN 0 ELSE LET S == {OutSum(g, weighted, x) : x \in Names(g)} IN CHOOSE m \in S : \A y \in S : y <= m
  IN 2 * n * (1 + D)

NormLimitE12 == 1000          \* | |x|_2 - 1 | <= 1e-9

EigenChecks(g, a) ==
  <<
    <<"ok_or_convergence_error", \A i \in DOMAIN a.groups : \A j \in DOMAIN a.groups[i].calls :
        a.groups[i].calls[j].e \in {"", "PowerIterationFailedConvergence"}>>,
    <<"one_entry_per_node", \A i \in DOMAIN a.groups : \A j \in DOMAIN a.groups[i].calls :
        a.groups[i].calls[j].e = "" => a.groups[i].calls[j].entries_ok>>,
    <<"non_negative", \A i \in DOMAIN a.groups : \A j \in DOMAIN a.groups[i].calls :
        a.groups[i].calls[j].e = "" => (a.groups[i].calls[j].nonneg /\ a.groups[i].calls[j].finite)>>,
    <<"unit_norm", \A i \in DOMAIN a.groups : \A j \in DOMAIN a.groups[i].calls :
        (a.groups[i].calls[j].e = "" /\ Len(g.nodes) > 0) => a.groups[i].calls[j].norm_err_e12 <= NormLimitE12>>,
    <<"approximate_fixed_point", \A i \in DOMAIN a.groups : \A j \in DOMAIN a.groups[i].calls :
        a.groups[i].calls[j].e = "" => a.groups[i].calls[j].ratio_milli <= 1000 * EigenK(g, a.groups[i].weighted)>>,
    (* "never a non-converged vector": the harness repeats the documented iteration (start 1/n, normalise(x + A^T x),
       converged when the entries moved by less than n * tol in total) and logs the first iteration kref_lo at which
       the movement is below the threshold widened by 1e-6 and kref_hi for the threshold narrowed by 1e-6 (1000000 =
       not within 1000 iterations).  Ok is only allowed from kref_lo on, an error only before kref_hi. *)
    <<"converged_iff_ok", \A i \in DOMAIN a.groups : \A j \in DOMAIN a.groups[i].calls :
        LET c == a.groups[i].calls[j] IN
        /\ c.e = "" => c.max_iter >= a.groups[i].kref_lo
        /\ c.e = "PowerIterationFailedConvergence" => c.max_iter < a.groups[i].kref_hi>>,
    (* calls are logged with increasing max_iter: once Ok, always Ok with the same vector;
       equivalently an Err at k implies an Err at every smaller k *)
    <<"monotone_in_max_iter", \A i \in DOMAIN a.groups :
        LET cs == a.groups[i].calls IN
        \A j, k \in DOMAIN cs : (j < k /\ cs[j].e = "") => (cs[k].e = "" /\ cs[k].same_as_prev)>>
  >>
=============================================================================
