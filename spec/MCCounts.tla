------------------------------ MODULE MCCounts ------------------------------
(***************************************************************************)
(* C09 at the design level: on every reachable state of the mutation       *)
(* machine (all 96 GraphSpecs) the counting definitions of GraphQuery obey *)
(* the handshake identities and the adjacency-matrix facts.                *)
(***************************************************************************)
EXTENDS GraphMachine, GraphQuery

SumNodes(F(_)) == SumOver(Names(g), F)

InvHandshake ==
  /\ SumNodes(LAMBDA n : Degree(g, n)) = 2 * NumEdges(g)
  /\ ~HasNaNAt(g, Keys(g)) => SumNodes(LAMBDA n : WDegree(g, n)) = 2 * WeightAt(g, Keys(g))

InvDirectedDegrees ==
  g.specs.directed =>
    /\ \A n \in Names(g) : Degree(g, n) = InDegree(g, n) + OutDegree(g, n)
    /\ SumNodes(LAMBDA n : InDegree(g, n)) = NumEdges(g)
    /\ SumNodes(LAMBDA n : OutDegree(g, n)) = NumEdges(g)
    /\ ~HasNaNAt(g, Keys(g)) =>
         /\ \A n \in Names(g) : WDegree(g, n) = WInDegree(g, n) + WOutDegree(g, n)
         /\ SumNodes(LAMBDA n : WInDegree(g, n)) = WeightAt(g, Keys(g))

Arc2(i, j) ==
  LET u == g.nodes[i + 1].name
      v == g.nodes[j + 1].name
  IN IF g.specs.directed THEN <<u, v>> \in Keys(g) ELSE Key(g, u, v) \in Keys(g)

InvMatrix ==
  ~g.specs.multi =>
    LET M == MatrixEntries(g) IN
    /\ \A e \in M : e[3][1] # 0                                  \* non-zero exactly where an edge exists
    /\ \A i, j \in 0..(Len(g.nodes) - 1) :
         (\E e \in M : e[1] = i /\ e[2] = j) <=> Arc2(i, j)
    /\ ~g.specs.directed => \A e \in M : <<e[2], e[1], e[3]>> \in M   \* symmetric
    /\ \A e, f \in M : (e[1] = f[1] /\ e[2] = f[2]) => e = f          \* one value per cell

MC_NameU == 1..3
MC_WeightU == {NaN, 1, 2}
MC_AttrU == {0}
MC_EdgeAttrU == {0}
MC_SpecsU == AllSpecs
View == g
=============================================================================
