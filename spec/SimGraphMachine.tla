-------------------------- MODULE SimGraphMachine --------------------------
(***************************************************************************)
(* Direction 2 of the conformance binding for the mutation rules: TLC      *)
(* walks the GraphMachine at random (-simulate) and prints each behaviour  *)
(* as one JSON line  WALK {"specs":..,"steps":[{"op":..,"res":..,         *)
(* "post":..}..]}  which the harness replays against the real library,     *)
(* comparing outcome and projected state after every step.                 *)
(***************************************************************************)
EXTENDS GraphQuery, Json

CONSTANTS NameU, WeightU, AttrU, EdgeAttrU, SpecsU, MaxEdges, Depth

VARIABLES g, res, last, hist

M == INSTANCE GraphMachine

OpJson(o) ==
  IF o.k = "add_node" THEN [k |-> "add_node", ns |-> <<<<o.n, o.a>>>>, es |-> <<>>]
  ELSE [k |-> "add_edge", ns |-> <<>>, es |-> <<<<o.e.u, o.e.v, o.e.w, o.e.a>>>>]

PostJson(x) ==
  [specs |-> x.specs,
   nodes |-> [i \in 1..Len(x.nodes) |-> <<x.nodes[i].name, x.nodes[i].attr>>],
   edges |-> FlatSeq(x, Keys(x))]

SimInit == M!Init /\ hist = <<>>
SimNext == /\ Len(hist) < Depth
           /\ M!Next
           /\ hist' = Append(hist, [op |-> OpJson(last'), res |-> res', post |-> PostJson(g')])
SimSpec == SimInit /\ [][SimNext]_<<g, res, last, hist>>

Emit == Len(hist) = Depth => PrintT("WALK " \o ToJson([specs |-> g.specs, steps |-> hist]))

MC_NameU == 1..4
MC_WeightU == {NaN, 1, 2, 3}
MC_AttrU == {0, 1, 2}
MC_EdgeAttrU == {0, 1, 2}
MC_SpecsU == AllSpecs
=============================================================================
