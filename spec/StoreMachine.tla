---------------------------- MODULE StoreMachine ----------------------------
(***************************************************************************)
(* The implementation-shaped store run in lock step with the abstract      *)
(* rules: every add_node / add_edge updates the twelve indexes by the      *)
(* rules of GraphStore (as creation.rs does) and the abstract state by     *)
(* GraphRules.  TLC checks, for all 96 GraphSpecs, that                    *)
(*   - both report the same outcome                 (SameOutcome)          *)
(*   - the indexes always describe the abstract state (InvCoherent, C02)   *)
(*   - the traversal lists hold the stored neighbours with the least       *)
(*     stored weight (InvAdjMatches, C03) on uniformly weighted or         *)
(*     uniformly unweighted histories.                                     *)
(***************************************************************************)
EXTENDS GraphStore

CONSTANTS NameU, RealWeightU, AttrU, SpecsU, MaxEdges, VecRule

VARIABLES g, st, wmode, ok

vars == <<g, st, wmode, ok>>

Init == /\ \E s \in SpecsU : g = EmptyGraph(s)
        /\ st = EmptyStore
        /\ wmode \in {"nan", "real"}          \* C03 antecedent: uniform weightedness
        /\ ok = TRUE

Weights == IF wmode = "nan" THEN {NaN} ELSE RealWeightU

AddNode(n, a) ==
  /\ g' = AddNodeRule(g, n, a)
  /\ st' = StoreAddNode(st, n, a)
  /\ UNCHANGED <<wmode, ok>>

AddEdge(e) ==
  LET r == AddEdgeRule(g, e)
      q == StoreAddEdge(VecRule, st, g.specs, e)
  IN /\ g' = r.g
     /\ st' = q.st
     /\ ok' = (r.res = q.res /\ (r.res # "Ok" => q.st = st))
     /\ UNCHANGED wmode

Next == \/ \E n \in NameU, a \in AttrU : AddNode(n, a)
        \/ \E u, v \in NameU, w \in Weights : AddEdge([u |-> u, v |-> v, w |-> w, a |-> 0])

Spec == Init /\ [][Next]_vars

Bounded == NumEdges(g) <= MaxEdges

SameOutcome == ok
InvCoherent == Coherent(g, StoreToSnap(st))
InvAdjMatches == AdjMatches(g, StoreToSnap(st))

MC_NameU == 1..3
MC_RealWeightU == {1, 2}
MC_AttrU == {0, 1}
MC_AttrU0 == {0}
MC_SpecsU == AllSpecs
View == <<g, st>>
=============================================================================
