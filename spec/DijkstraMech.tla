----------------------------- MODULE DijkstraMech -----------------------------
(***************************************************************************)
(* The Dijkstra search loop of DijkstraRules as a state machine, model-    *)
(* checked against the definitions of Paths (which are themselves checked  *)
(* against brute force in MCPaths): every graph over N nodes with weights  *)
(* from WSet, both scan orders of the traversal lists, every source, every *)
(* target (or none), every cutoff in Cutoffs, first_only or not.           *)
(*                                                                         *)
(*  Settled      every settled distance is the true distance, at every     *)
(*               step (C04)                                                *)
(*  Monotone     nodes are settled in order of non-decreasing distance     *)
(*  AtEnd        on termination: no ContradictoryPaths; without a target   *)
(*               exactly the nodes within the cutoff are settled; with a   *)
(*               target it is settled iff it is within the cutoff (C08:    *)
(*               options restrict, never change); with strictly positive   *)
(*               weights the paths of every settled node are all its       *)
(*               shortest paths, each once (first_only: exactly one)       *)
(*                                                                         *)
(* Buffers = "fresh": seen starts at INF everywhere (the code).             *)
(* Buffers = "stale": seen starts with arbitrary left-over tentative       *)
(*   distances, as when work buffers are reused between searches and only  *)
(*   the settled entries are reset (a realistic optimisation).  TLC        *)
(*   refutes Settled/AtEnd for it: the design needs fresh buffers.         *)
(***************************************************************************)
EXTENDS DijkstraRules

CONSTANTS N, Directed, WSet, Cutoffs, Buffers

VARIABLES g, adj, opts, src, st

vars == <<g, adj, opts, src, st>>

MPairs == {p \in (1..N) \X (1..N) : p[1] # p[2] /\ (Directed \/ p[1] < p[2])}
MSpecs == [directed |-> Directed, multi |-> FALSE, loops |-> FALSE, dedupe |-> "Error", missing |-> "Create", loopfalse |-> "Error"]
MGraphOf(E, wf) == [specs |-> MSpecs, nodes |-> [i \in 1..N |-> [name |-> i, attr |-> 0]], edges |-> [k \in E |-> <<[w |-> wf[k], a |-> 0]>>]]

Weighted == WSet # {NaN}
Succ(gr, v) == {u \in 1..N : Arc(gr, v, u)}

(* the traversal list of v: its successors in ascending or descending order *)
RECURSIVE ListOf(_, _, _, _)
ListOf(gr, v, S, up) ==
  IF S = {} THEN <<>>
  ELSE LET u == IF up THEN MinOf(S) ELSE CHOOSE x \in S : \A y \in S : y <= x
       IN <<<<u, StepW(gr, Weighted, v, u)>>>> \o ListOf(gr, v, S \ {u}, up)

AdjOf(gr, up) == [v \in 1..N |-> ListOf(gr, v, Succ(gr, v), up)]

Seen0 == IF Buffers = "fresh" THEN {[v \in 1..N |-> INF]} ELSE [1..N -> {INF, 1, 2}]

Init ==
  /\ \E E \in SUBSET MPairs : \E wf \in [E -> WSet] : g = MGraphOf(E, wf)
  /\ \E up \in BOOLEAN : adj = AdjOf(g, up)
  /\ src \in 1..N
  /\ \E t \in 0..N : \E c \in Cutoffs : \E fo \in BOOLEAN :
        opts = [target |-> t, cutoff |-> c, first_only |-> fo, with_paths |-> TRUE]
  /\ \E s0 \in Seen0 : st = Start(N, src, s0)

Next == ~Finished(st) /\ st' = PopStep(st, adj, opts) /\ UNCHANGED <<g, adj, opts, src>>

Spec == Init /\ [][Next]_vars /\ WF_vars(Next)

D == Dist(g, Weighted, src)
Within == {t \in 1..N : D[t] < INF /\ (opts.cutoff < 0 \/ 2 * D[t] <= opts.cutoff)}
SettledSet == {v \in 1..N : st.dist[v] # INF}

Settled == \A v \in SettledSet : st.dist[v] = D[v]

Monotone == [][\A i \in 1..(Len(st'.order) - 1) : st'.dist[st'.order[i]] <= st'.dist[st'.order[i + 1]]]_vars

NoDup(s) == \A i, j \in DOMAIN s : s[i] = s[j] => i = j

AtEnd ==
  Finished(st) =>
    /\ ~st.err
    /\ SettledSet \subseteq Within
    /\ IF opts.target = 0 THEN SettledSet = Within
       ELSE (opts.target \in Within <=> opts.target \in SettledSet)
    /\ AllPositive(g, Weighted) =>
         \A SP \in {ShortestPathsFrom(g, Weighted, src, D)} :
            \A v \in SettledSet :
               /\ NoDup(st.paths[v])
               /\ Range(st.paths[v]) \subseteq SP[v]
               /\ IF opts.first_only THEN Len(st.paths[v]) = 1 ELSE Range(st.paths[v]) = SP[v]
    (* with zero weights every reported path is still a genuine path of the reported length *)
    /\ \A v \in SettledSet : \A i \in DOMAIN st.paths[v] : ValidPath(g, Weighted, src, v, st.dist[v], st.paths[v][i])

Terminates == <>Finished(st)

(* the recursive whole-run operator used by the monitors agrees with the machine *)
RunAgrees == Finished(st) => (Buffers = "fresh" => Run(N, adj, src, opts) = st)

W12 == {1, 2}
W012 == {0, 1, 2}
WNaN == {NaN}
C_none == {-1}
C_few == {-1, 3}
C_some == {-1, 0, 1, 2, 3, 4}
=============================================================================
