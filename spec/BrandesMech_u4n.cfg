SPECIFICATION Spec
CONSTANTS
  N = 4
  Directed = FALSE
  WSet <- WNaN
  OnImprove = "reset"
INVARIANTS
  SearchCorrect
  DependencyCorrect
PROPERTIES
  Terminates
CHECK_DEADLOCK FALSE
