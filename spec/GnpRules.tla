------------------------------ MODULE GnpRules ------------------------------
(***************************************************************************)
(* One iteration of the two geometric-skipping loops of                    *)
(* fast_gnp_random_graph as pure functions of (n, position, skip), shared  *)
(* by the state machine Gnp (model checking) and by the monitor (replay of *)
(* the skip sequence of a real run).                                       *)
(***************************************************************************)
EXTENDS Integers, Sequences, FiniteSets, TLC

RECURSIVE NormDn(_, _, _)
NormDn(n, v, w) ==        \* while v < n && n <= w { w -= n; v += 1; if v == w { w += 1 } }
  IF v < n /\ n <= w
    THEN LET v1 == v + 1
             w1 == w - n
         IN NormDn(n, v1, IF v1 = w1 THEN w1 + 1 ELSE w1)
    ELSE [v |-> v, w |-> w]

StepDn(n, v, w, skip) ==
  LET w1 == w + 1 + skip
      w2 == IF v = w1 THEN w1 + 1 ELSE w1
  IN NormDn(n, v, w2)

RECURSIVE NormUn(_, _, _, _)
NormUn(n, variant, v, w) ==   \* while w >= v && v < n { w -= v (published) / w += v (pinned); v += 1 }
  IF w >= v /\ v < n
    THEN NormUn(n, variant, v + 1, IF variant = "published" THEN w - v ELSE w + v)
    ELSE [v |-> v, w |-> w]

StepUn(n, variant, v, w, skip) == NormUn(n, variant, v, w + 1 + skip)

(* the whole run for a given skip sequence: the sequence of emitted pairs *)
RECURSIVE RunFrom(_, _, _, _, _, _)
RunFrom(n, directed, v, w, skips, acc) ==
  IF v >= n \/ skips = <<>> THEN acc
  ELSE LET s == IF directed THEN StepDn(n, v, w, Head(skips)) ELSE StepUn(n, "published", v, w, Head(skips))
       IN IF s.v < n THEN RunFrom(n, directed, s.v, s.w, Tail(skips), Append(acc, <<s.v, s.w>>))
          ELSE acc

Run(n, directed, skips) == RunFrom(n, directed, IF directed THEN 0 ELSE 1, -1, skips, <<>>)

CompleteEdges(n, directed) ==
  IF directed THEN {p \in (0..(n - 1)) \X (0..(n - 1)) : p[1] # p[2]}
  ELSE {p \in (0..(n - 1)) \X (0..(n - 1)) : p[1] < p[2]}

KarateNodes == 34
KarateEdges == 78
=============================================================================
