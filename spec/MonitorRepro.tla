---------------------------- MODULE MonitorRepro ----------------------------
(***************************************************************************)
(* C17: a seeded randomised function is a pure function of its arguments.  *)
(* Every event aggregates all results logged for one argument tuple        *)
(* (repeated calls in one process, calls in fresh processes, calls under   *)
(* rayon pools of 1, 4 and 16 threads; results canonicalised as sets of    *)
(* sets / sorted edge lists by the harness); the property is that the      *)
(* number of distinct results is 1.                                        *)
(***************************************************************************)
EXTENDS Integers, Sequences, FiniteSets, TLC, Json, IOUtils

Rec == ndJsonDeserialize(IOEnv.TRACE)
VARIABLES l

FailedOf(checks) == {checks[i][1] : i \in {j \in DOMAIN checks : ~checks[j][2]}}
Report(e, group, checks) ==
  LET f == FailedOf(checks) IN
  IF f = {} THEN TRUE ELSE PrintT("NONCONF " \o ToString(e.id) \o " " \o group \o " " \o ToString(f))

Repro(e) ==
  CASE e.op.k = "repro_louvain" ->
         <<<<"calls_complete", e.status = "">>,
           <<"same_in_one_process", e.distinct_in_process <= 1>>,
           <<"same_across_processes", e.distinct_across_processes <= 1>>,
           <<"same_across_pool_sizes", e.distinct_across_pools <= 1>>,
           <<"one_result_overall", e.distinct_total = 1>>>>
    [] e.op.k = "repro_gnp" -> <<<<"gnp_same_graph", e.distinct_total = 1>>>>
    [] e.op.k = "repro_pure" -> <<<<"non_randomised_same_answer", e.distinct_total = 1>>>>
    [] OTHER -> <<<<"unknown_event", FALSE>>>>

Init == l = 1
Next == l <= Len(Rec) /\ Report(Rec[l], "repro", Repro(Rec[l])) /\ l' = l + 1
Spec == Init /\ [][Next]_l
AllConsumed == IF TLCGet("stats").diameter = Len(Rec) + 1 THEN TRUE
               ELSE PrintT(<<"INCOMPLETE", TLCGet("stats").diameter, Len(Rec)>>) /\ FALSE
=============================================================================
