SPECIFICATION Spec
CONSTANTS
  K = 2
  MCItems = 3
  MCMode = "on_finish"
INVARIANT TypeOK
INVARIANT RunOnce
INVARIANT BarrierBeforeCombine
INVARIANT PrefixOfSerial
INVARIANT KeyedComplete
INVARIANT FinalIsSerial
PROPERTY Terminates
CHECK_DEADLOCK FALSE
