SPECIFICATION Spec
VIEW View
POSTCONDITION AllConsumed
CHECK_DEADLOCK FALSE
