"""C14 (write-then-read round trip) and C19 (the reader never panics)."""
import json, os, time
from vlib import *


def _tlc_docs(work, length, hdr, idx):
    res = run_tlc("GenDocs.tla", "GenDocs.cfg", work.path("gd%d" % idx), workers=1, extra_env={"GEN_LEN": str(length), "GEN_HDR": hdr},
                  timeout=3000, heap="8g")
    docs = [json.loads(l.strip())[4:] for l in res["out"].splitlines() if l.startswith('"DOC ')]
    if not docs:
        raise ToolError("GenDocs produced nothing:\n" + tlc_error_text(res))
    return docs


def _judge(prop, verdict, traces, results, groups, kind):
    fails = {}
    for trace, res in zip(traces, results):
        ncs = [x for x in parse_nonconf(res["out"]) if x[1] in groups]
        evs = read_events(trace, [x[0] for x in ncs])
        for eid, group, checks in ncs:
            ev = evs[eid]
            for c in checks:
                fails[(group, c)] = fails.get((group, c), 0) + 1
                small = {k: v for k, v in ev.items() if k not in ("id",)}
                verdict.nonconf(group, c, small, "%s/%s: %s" % (group, c, json.dumps(small)[:400]),
                                {"property": prop, "kind": kind, "event": small})
    return fails


def run_c14(tier, replay=None):
    prop = "C14"
    t0 = time.time()
    work = Work(prop)
    verdict = Verdict(prop)
    try:
        gv = build_harness()
        n = 100000 if tier == "thorough" else 3000
        if replay:
            r = json.load(open(replay))
            n, sd = r.get("n", 3000), r.get("seed", 0)
        else:
            sd = seed()
            mc = run_tlc("MCGraphML.tla", "MCGraphML_thorough.cfg" if tier == "thorough" else "MCGraphML.cfg", work.path("mc"), workers=12, timeout=3000, heap="12g")
            if tlc_failed(mc):
                raise ToolError("model checking MCGraphML failed:\n" + tlc_error_text(mc))
            log("model checked MCGraphML: %d states" % mc["distinct"])
        shards = NCPU if n >= 16000 else 4
        jobs = []
        for i in range(shards):
            os.makedirs(work.path("sc%d" % i), exist_ok=True)
            jobs.append((work.path("rt%02d.ndjson" % i), ["gml-rt", "--out", work.path("rt%02d.ndjson" % i), "--n", n // shards, "--seed", sd * 131 + i,
                                                          "--scratch", work.path("sc%d" % i)]))
        with ThreadPoolExecutor(max_workers=NCPU) as ex:
            list(ex.map(lambda j: run_gv(gv, j[1]), jobs))
        traces = [j[0] for j in jobs]
        results, distinct, generated = monitor_shards("MonitorGml", traces, work.dir)
        fails = _judge(prop, verdict, traces, results, {"roundtrip"}, "gml-rt")
        if replay:
            print("replay: %s" % ("violations" if fails else "conforms"))
            return verdict.finish()
        samples = []
        with open(traces[0]) as f:
            for i, line in enumerate(f):
                if i in (0, 7, 250):
                    e = json.loads(line)
                    samples.append({k: e[k] for k in ("names", "post", "res", "doc_head")})
        cov = {
            "states": mc["distinct"] + distinct, "transitions": mc["generated"] + generated,
            "traces_validated_against_impl": (n // shards) * shards,
            "samples": samples,
            "model_checking": {"module": "MCGraphML", "distinct_states": mc["distinct"], "properties": ["InvRoundTrip"], "specs": 96},
            "direction1": {"round_trips": (n // shards) * shards, "failed_checks": {"%s/%s" % k: v for k, v in fails.items()},
                           "name_table": "harness/src/gml.rs name_table(): XML specials, spaces, empty string, non-ASCII, combining, astral plane, entity look-alikes; plus random Unicode without control characters",
                           "weight_table": "weight_table(): 0.1+0.2, +-0, 5e-324, MIN_POSITIVE, 1e308, MAX, MIN, +-inf, 2^53+1, ...; plus random non-NaN bit patterns"},
            "explanation": "Structural part: TLC checks Read(Write(g)) = g on every reachable state of the mutation machine for all 96 GraphSpecs. "
                           "Lexical part (escaping, float printing): the abstract name / weight tokens are instantiated with a table of awkward values and "
                           "random draws; identity of tokens = identity of strings / f64 bit patterns; this part is sampling, not exhaustive.",
        }
        rc = verdict.finish()
        write_evidence(prop, tier, "model_checking", cov, time.time() - t0, len(verdict.violations),
                       ["lexical fidelity is sampled over a table and random draws, not proved for all of Unicode x 2^64",
                        "token interning in harness/src/gml.rs", "TLC 1.8.0, Json/IOUtils"])
        return rc
    finally:
        work.close()


def run_c19(tier, replay=None):
    prop = "C19"
    t0 = time.time()
    work = Work(prop)
    verdict = Verdict(prop)
    try:
        gv = build_harness()
        if replay:
            r = json.load(open(replay))
            ev = r["event"]
            if "toks" in ev:
                with open(work.path("d.ndjson"), "w") as f:
                    f.write(json.dumps({"toks": ev["toks"]}) + "\n")
                # the spec used for a document depends on its position; replay all positions 0..8
                with open(work.path("d.ndjson"), "w") as f:
                    for _ in range(9):
                        f.write(json.dumps({"toks": ev["toks"]}) + "\n")
                run_gv(gv, ["gml-docs", "--in", work.path("d.ndjson"), "--out", work.path("o.ndjson")])
                traces = [work.path("o.ndjson")]
            else:
                run_gv(gv, ["gml-corrupt", "--n", r.get("n", 20), "--stride", r.get("stride", 3), "--seed", r.get("seed", 0), "--out", work.path("o.ndjson")])
                traces = [work.path("o.ndjson")]
            results, _, _ = monitor_shards("MonitorGml", traces, work.dir)
            fails = _judge(prop, verdict, traces, results, {"reader", "corruption"}, "gml")
            print("replay: %s" % ("violations" if fails else "conforms"))
            return verdict.finish()
        mc = run_tlc("MCGraphML.tla", "MCGraphML.cfg", work.path("mc"), workers=12, timeout=3000, heap="12g")
        if tlc_failed(mc):
            raise ToolError("model checking MCGraphML failed:\n" + tlc_error_text(mc))
        fams = [(1, "all"), (2, "std")] + ([(3, "std"), (2, "all")] if tier == "thorough" else [])
        docs = []
        with ThreadPoolExecutor(max_workers=4) as ex:
            for d in ex.map(lambda x: _tlc_docs(work, x[1][0], x[1][1], x[0]), list(enumerate(fams))):
                docs += d
        docs = list(dict.fromkeys(docs))
        nsh = NCPU * (4 if tier == "thorough" else 1)
        jobs = []
        for i in range(nsh):
            part = docs[i::nsh]
            if not part:
                continue
            with open(work.path("docs%02d.ndjson" % i), "w") as f:
                f.write("\n".join(part) + "\n")
            jobs.append((work.path("docs%02d.ndjson" % i), work.path("obs%02d.ndjson" % i)))
        with ThreadPoolExecutor(max_workers=NCPU) as ex:
            infos = list(ex.map(lambda j: run_gv(gv, ["gml-docs", "--in", j[0], "--out", j[1]]), jobs))
        ndocs_corrupt, stride = (200, 1) if tier == "thorough" else (24, 3)
        cjobs = []
        for i in range(8):
            cjobs.append(work.path("cor%02d.ndjson" % i))
        with ThreadPoolExecutor(max_workers=8) as ex:
            cinfos = list(ex.map(lambda ip: run_gv(gv, ["gml-corrupt", "--n", ndocs_corrupt // 8, "--stride", stride, "--seed", seed() * 17 + ip[0], "--out", ip[1]], timeout=7200),
                                 list(enumerate(cjobs))))
        traces = [j[1] for j in jobs] + cjobs
        results, distinct, generated = monitor_shards("MonitorGml", traces, work.dir)
        fails = _judge(prop, verdict, traces, results, {"reader", "corruption"}, "gml")
        samples = []
        with open(jobs[0][1]) as f:
            for i, line in enumerate(f):
                if i in (1, 30, 200):
                    e = json.loads(line)
                    samples.append({k: e[k] for k in ("toks", "doc", "outcome", "specs")})
        outcomes = {}
        for j in jobs:
            for line in open(j[1]):
                o = json.loads(line)["outcome"]
                outcomes[o] = outcomes.get(o, 0) + 1
        cov = {
            "states": mc["distinct"] + distinct, "transitions": mc["generated"] + generated,
            "traces_validated_against_impl": len(docs) + sum(c["child_calls"] for c in cinfos),
            "samples": samples,
            "exhaustive": True,
            "direction2": {"token_documents": len(docs), "families": [{"content_units_up_to": a, "headers": b} for a, b in fams], "outcome_classes": outcomes,
                           "alphabet": "123 content units (node / edge / data / key forms with present, missing, duplicated and undecodable attributes; numeric, padded, non-numeric, empty, empty-element, nested and ten odd-number weight texts (1e999, -0, 0x10, +5, 1_000, NaN, -inf, 400 digits, non-ASCII digits); multi-byte ids; unknown elements, stray text, comments, mismatched end tag, end of input in seven places) x header variants"},
            "fault_sequences": {"documents": ndocs_corrupt, "byte_stride": stride, "corrupted_variants_read": sum(c["child_calls"] for c in cinfos),
                                "kinds": ["deletion", "duplication", "truncation", "bit flip"]},
            "failed_checks": {"%s/%s" % k: v for k, v in fails.items()},
            "explanation": "TLC enumerates every token document of bounded length; each is rendered to XML and read in an expendable child process with a "
                           "10 s deadline; TLC judges the outcome class and, for Ok, the graph against GraphML!ReadContract (Err where an element cannot be "
                           "represented, the C01 rules for the node/edge elements, declared directedness; lenient where the property is silent). Every "
                           "single-point corruption of well-formed documents must yield Ok or Err.",
        }
        rc = verdict.finish()
        write_evidence(prop, tier, "model_checking", cov, time.time() - t0, len(verdict.violations),
                       ["the renderer from tokens to XML text (harness/src/gml.rs render_token)", "catch_unwind requires panic=unwind; aborts and hangs are caught by the child-process watchdog",
                        "TLC 1.8.0, Json/IOUtils"])
        return rc
    finally:
        work.close()
