#!/bin/sh
# runs every thorough check once, sequentially; prints one summary line per property
cd "$(dirname "$0")"
(cd harness && cargo build --offline >/dev/null 2>&1 && cargo build --offline --release >/dev/null 2>&1)
for p in "$@"; do
  s=$(date +%s)
  ./check $p --tier thorough > work/thorough_$p.log 2>&1
  rc=$?
  e=$(date +%s)
  echo "$p rc=$rc wall=$((e-s))s $(grep -c '^VIOLATION' work/thorough_$p.log) violations"
  grep -E "^VIOLATION|TOOL-ERROR|KNOWN-FINDING" work/thorough_$p.log | head -5 | cut -c1-300
done
