"""Checks of the mutation-model family: C01 (rules), C02 (read APIs + indexes),
C03 (traversal index), C09 (counts / degrees / matrix), C15 (derived graphs).

Pipeline of every check here:
  1. TLC model-checks the relevant part of the specification (design level).
  2. The harness records forests of real executions for all 96 GraphSpecs.
  3. TLC, running spec/MonitorMut.tla, validates every recorded event.
  4. (C01) TLC-generated random walks of the model are replayed into the library.
Only the monitor groups that state the property decide the verdict.
"""
import json, os, time
from vlib import *

GROUPS = {
    "C01": {"mut"},
    "C02": {"snap", "query", "query_state"},
    "C03": {"vec", "algo", "eigen"},
    "C09": {"counts"},
    # the derived graph must itself satisfy C01-C03: its snapshot and query table are judged too
    "C15": {"derive", "derive_src", "derived_snap", "derived_vec", "derived_query"},
}

# trace shapes per property and tier: gv mut arguments
PLANS = {
    ("C01", "quick"): dict(ex="3:2:-1,2:3:-1", random=150, rk=5, rlen=30, rq=0, snap=0, shards=16, walks=60, mc="MCGraphMachine.cfg"),
    ("C01", "thorough"): dict(ex="3:3:-1", random=3000, rk=5, rlen=30, rq=0, snap=0, shards=96, walks=1500, mc="MCGraphMachine_thorough.cfg"),
    # C02: every state of the depth<=2 forest over 3 names (+1 absent name) is asked the full read-API table,
    # and the private indexes are snapshotted after every mutation
    ("C02", "quick"): dict(ex="3:2:2", random=40, rk=4, rlen=16, rq=2, snap=1, shards=16, mc="StoreMachine.cfg"),
    ("C02", "thorough"): dict(ex="3:2:2,2:3:3", random=400, rk=5, rlen=24, rq=3, snap=1, shards=96, mc="StoreMachine_thorough.cfg"),
    ("C03", "quick"): dict(ex="3:2:-1,2:3:-1", random=150, rk=5, rlen=30, rq=0, snap=1, shards=16, mc="StoreMachine.cfg", dups=1500),
    ("C03", "thorough"): dict(ex="3:3:-1", random=2000, rk=5, rlen=30, rq=0, snap=1, shards=96, mc="StoreMachine_thorough.cfg", dups=30000),
    ("C15", "quick"): dict(ex="3:1:1,2:2:1", random=30, rk=4, rlen=14, rq=2, snap=1, shards=16, mc="MCDerive.cfg", derive=1, random2=10, rk2=7, rlen2=16),
    ("C15", "thorough"): dict(ex="3:2:1,2:3:1", random=300, rk=5, rlen=20, rq=2, snap=1, shards=96, mc="MCDerive_thorough.cfg", derive=1, random2=60, rk2=8, rlen2=24),
    ("C09", "quick"): dict(ex="3:2:2", random=60, rk=4, rlen=16, rq=2, snap=0, shards=16, mc="MCCounts.cfg"),
    ("C09", "thorough"): dict(ex="3:2:2,2:3:3", random=600, rk=5, rlen=24, rq=3, snap=0, shards=96, mc="MCCounts_thorough.cfg"),
}

MC_MODULE = {"C01": "MCGraphMachine.tla", "C02": "StoreMachine.tla", "C03": "StoreMachine.tla", "C09": "MCCounts.tla", "C15": "MCDerive.tla"}
MC_PROPS = {
    "C01": ["InvWellFormed", "RejectedChangesNothing", "NamesOnlyAppend", "SpecsNeverChange", "EdgesMonotone"],
    "C02": ["SameOutcome", "InvCoherent"],
    "C03": ["InvAdjMatches", "SameOutcome"],
    "C09": ["InvHandshake", "InvDirectedDegrees", "InvMatrix"],
    "C15": ["InvSubgraph", "InvSubgraphAll", "InvReverse", "InvReweight", "InvCollapse"],
}
EXPLAIN = {
    "C15": "TLC checks on every reachable state of the mutation machine (all 96 GraphSpecs) that Subgraph / Reverse / Reweight / Collapse "
           "give well-formed graphs, that reverse is an involution, that subgraphs nest and that collapsing preserves weight; on recorded "
           "executions every derive call from every state of the forest (get_subgraph for every subset of the names + an absent name, "
           "reverse, set_all_edge_weights(NaN / 7), to_single_edges) is compared with the specification, the source graph is re-projected "
           "and must be unchanged, and the derived graph's indexes and read-API table are validated as for C02/C03.",
    "C02": "TLC checks on the implementation-shaped store machine (all 96 GraphSpecs) that the twelve indexes always describe the abstract "
           "state; on recorded executions TLC compares, for every state of the forest, the complete read-API table (every ordered pair, "
           "every node, every subset of the name universe incl. an absent name) with GraphQuery, and the hook snapshot of the private "
           "indexes with the derived store.",
    "C03": "TLC checks on the store machine that the traversal lists hold exactly the stored neighbours with the least stored weight "
           "(uniformly weighted / unweighted histories); recorded snapshots of successors_vec/predecessors_vec are compared with the "
           "abstract state after every mutation, and weighted Dijkstra / betweenness / closeness answers on duplicate-insertion "
           "histories are compared with Paths/Centrality evaluated on the logged get_all_edges() alone.",
    "C09": "TLC checks the handshake identities and the adjacency-matrix facts on every reachable state of the mutation machine; on "
           "recorded executions every count, degree, density, degree-centrality and matrix answer is compared with its definition and "
           "the identities are evaluated on the library's own numbers.",
}



def model_check(cfg, module, work, workers=12, timeout=3000):
    t = time.time()
    res = run_tlc(module, cfg, work.path("mc"), workers=workers, timeout=timeout, heap="12g")
    if tlc_failed(res):
        raise ToolError("model checking of %s failed (specification-level error, not a verdict about the code):\n%s"
                        % (module, tlc_error_text(res)))
    log("model checked %s/%s: %d distinct states, %d generated, %.0fs" % (module, cfg, res["distinct"], res["generated"], time.time() - t))
    return res


def gen_traces(gv, plan, work, extra=None):
    all_n = 96
    shards = plan["shards"]
    per = (all_n + shards - 1) // shards
    jobs = []
    for i in range(shards):
        a, b = i * per, min(all_n, (i + 1) * per)
        if a >= b:
            continue
        out = work.path("trace%02d.ndjson" % i)
        args = ["mut", "--out", out, "--from", a, "--to", b, "--ex", plan["ex"], "--random", plan["random"],
                "--rk", plan["rk"], "--rlen", plan["rlen"], "--rq", plan["rq"], "--snap", plan["snap"],
                "--seed", seed(), "--derive", plan.get("derive", 0)]
        if plan.get("random2"):
            args += ["--random2", plan["random2"], "--rk2", plan["rk2"], "--rlen2", plan["rlen2"]]
        if extra:
            args += extra
        jobs.append((out, args))
    with ThreadPoolExecutor(max_workers=NCPU) as ex:
        infos = list(ex.map(lambda j: run_gv(gv, j[1]), jobs))
    counts = {}
    for inf in infos:
        for k, v in inf.get("counts", {}).items():
            counts[k] = counts.get(k, 0) + v
    return [j[0] for j in jobs], sum(i["events"] for i in infos), counts


def replay_obj_for(prop, trace, eid, group, checks):
    chain = path_to(trace, eid)
    ops = [e["op"] for e in chain]
    return {"property": prop, "kind": "mut", "group": group, "failed_checks": checks,
            "specs": chain[0]["post"]["specs"] if chain and chain[0].get("post") else None,
            "ops": ops, "observed": {k: chain[-1].get(k) for k in ("res", "post", "panic") if k in chain[-1]}}


def judge(prop, verdict, traces, results, robj_fn=None):
    """Applies the monitor output to the verdict; returns per-group counts of failures."""
    robj_fn = robj_fn or replay_obj_for
    fails = {}
    for trace, res in zip(traces, results):
        ncs = [x for x in parse_nonconf(res["out"]) if x[1] in GROUPS[prop]]
        if not ncs:
            continue
        evs = read_events(trace, [x[0] for x in ncs])
        for eid, group, checks in ncs:
            for c in checks:
                fails[(group, c)] = fails.get((group, c), 0) + 1
                ev = evs[eid]
                small = {k: ev.get(k) for k in ("op", "res", "post", "uniform", "panic")}
                what = "%s/%s on %s after op %s" % (group, c, (ev.get("post") or {}).get("specs"), json.dumps(ev["op"])[:200])
                robj = robj_fn(prop, trace, eid, group, [c]) if verdict.wants_replay(group, c, small) else {}
                verdict.nonconf(group, c, small, what, robj)
    return fails


def repo_replay_obj(prop, trace, eid, group, checks):
    """A recorded call of the repository's tests as a history the harness can re-execute: the graph before the
    call rebuilt from its nodes and stored edges, then the call."""
    chain = path_to(trace, eid)
    root, last = chain[0], chain[-1]
    ops = [{"k": "add_nodes", "ns": root["post"]["nodes"], "es": []}, {"k": "add_edges", "ns": [], "es": root["post"]["edges"]}]
    ops += [e["op"] for e in chain[1:]]
    return {"property": prop, "kind": "mut", "group": group, "failed_checks": checks, "specs": root["post"]["specs"],
            "ops": [o for o in ops if o["ns"] or o["es"]], "source": "call recorded from the repository's own test suite",
            "observed": {k: last.get(k) for k in ("op", "res", "post", "snap")}}


def repo_tests_step(prop, work, verdict, shards=8):
    """Direction 1 with the repository's own tests as the driver: the suite is run with the mutation hook on and
    every recorded add_node / add_edge call (with all private indexes before and after) is validated by MonitorMut."""
    import rtrace
    t = time.time()
    records, info = rtrace.record(work.dir, os.path.join(ROOT, "harness", "target-rt"), log)
    events = rtrace.to_events(records)
    if not events:
        raise ToolError("the repository's test suite produced no mutation records (hook not compiled in?)")
    # shard by root so that every event's parent is in its own file
    root_of, groups = {}, {}
    for e in events:
        root_of[e["id"]] = e["id"] if e["parent"] == 0 else root_of[e["parent"]]
        groups.setdefault(root_of[e["id"]], []).append(e)
    bins = [[] for _ in range(shards)]
    for i, (_, evs) in enumerate(sorted(groups.items(), key=lambda kv: -len(kv[1]))):
        min(bins, key=len).extend(evs)
    traces = []
    for i, b in enumerate(x for x in bins if x):
        renum = {0: 0}
        for j, e in enumerate(b, 1):
            renum[e["id"]] = j
        path = work.path("repotests%02d.ndjson" % i)
        with open(path, "w") as f:
            for e in b:
                f.write(json.dumps(dict(e, id=renum[e["id"]], parent=renum[e["parent"]])) + "\n")
        traces.append(path)
    results, distinct, generated = monitor_shards("MonitorMut", traces, work.dir)
    fails = judge(prop, verdict, traces, results, robj_fn=repo_replay_obj)
    kinds = {}
    for e in events:
        kinds[e["op"]["k"]] = kinds.get(e["op"]["k"], 0) + 1
    info.update({"distinct_records": sum(v for k, v in kinds.items() if k != "state"), "events_monitored": len(events), "event_kinds": kinds,
                 "monitor_states": distinct, "failed_checks": {"%s/%s" % k: v for k, v in fails.items()},
                 "specs_seen": len({json.dumps(e["post"]["specs"], sort_keys=True) for e in events})})
    log("repository-test traces: %d distinct records, %d events monitored in %.0fs, failures %s"
        % (info["distinct_records"], len(events), time.time() - t, info["failed_checks"]))
    return info, distinct, generated


def walks_direction2(gv, work, n, verdict, prop):
    """TLC-generated behaviours of the mutation machine replayed into the library."""
    t = time.time()
    res = run_tlc("SimGraphMachine.tla", "SimGraphMachine.cfg", work.path("sim"), workers=1, simulate=n, depth=12,
                  seedv=seed() + 1, timeout=3000, heap="4g")
    walks = work.path("walks.ndjson")
    k = 0
    with open(walks, "w") as o:
        for l in res["out"].splitlines():
            if l.startswith('"WALK '):
                o.write(json.loads(l.strip())[5:] + "\n")
                k += 1
    if k == 0:
        raise ToolError("TLC produced no walks:\n" + tlc_error_text(res))
    info = run_gv(gv, ["replay-walks", "--in", walks, "--out", work.path("walks.res")])
    sample = None
    with open(walks) as f:
        sample = json.loads(f.readline())
    for line in open(work.path("walks.res")):
        mm = json.loads(line)
        what = "model walk step %d: library %s differs from the specification" % (mm["step"], mm["what"])
        verdict.nonconf("walk", "walk", {"post": {"specs": mm["specs"]}}, what,
                        {"property": prop, "kind": "walk", "specs": mm["specs"], "steps": mm["steps"][: mm["step"] + 1]})
    log("direction 2: %d walks, %d steps replayed in %.0fs, %d mismatches" % (info["walks"], info["steps"], time.time() - t, info["mismatches"]))
    return info, res, sample


def run_c01(tier, replay=None):
    prop = "C01"
    t0 = time.time()
    work = Work(prop)
    verdict = Verdict(prop)
    try:
        gv = build_harness()
        if replay:
            return replay_mut(prop, gv, work, verdict, replay)
        plan = PLANS[(prop, tier)]
        mc = model_check(plan["mc"], "MCGraphMachine.tla", work)
        traces, nev, counts = gen_traces(gv, plan, work)
        log("recorded %d events in %d shards: %s" % (nev, len(traces), counts))
        results, distinct, generated = monitor_shards("MonitorMut", traces, work.dir)
        fails = judge(prop, verdict, traces, results)
        winfo, wres, wsample = walks_direction2(gv, work, plan["walks"], verdict, prop)
        rinfo, rdistinct, rgenerated = repo_tests_step(prop, work, verdict)
        distinct += rdistinct
        generated += rgenerated
        # value semantics of Edge / Node (ordered, reversed, Eq / Ord / Hash) over a small universe
        run_gv(gv, ["values", "--out", work.path("values.ndjson")])
        vres, vdistinct, vgen = monitor_shards("ValueTypes", [work.path("values.ndjson")], work.dir)
        for eid, group, checks in parse_nonconf(vres[0]["out"]):
            for ck in checks:
                verdict.nonconf("values", ck, {}, "Edge/Node value semantics: %s" % ck, {"property": prop, "kind": "values", "failed_check": ck})
        sample_events = []
        with open(traces[0]) as f:
            for i, line in enumerate(f):
                if i in (1, 40, 400):
                    e = json.loads(line)
                    sample_events.append({k: e[k] for k in ("parent", "op", "res", "post")})
        roots = counts.get("new", 0) + counts.get("new_from", 0)
        cov = {
            "states": mc["distinct"] + distinct,
            "transitions": mc["generated"] + generated,
            "traces_validated_against_impl": roots + winfo["walks"],
            "samples": sample_events + [{"tlc_walk": wsample}],
            "exhaustive": True,
            "model_checking": {"module": "GraphMachine", "config": plan["mc"], "distinct_states": mc["distinct"],
                               "states_generated": mc["generated"], "specs": 96,
                               "properties": ["InvWellFormed", "RejectedChangesNothing", "NamesOnlyAppend", "SpecsNeverChange", "EdgesMonotone"]},
            "direction1": {"events_monitored": nev, "event_kinds": counts, "monitor_states": distinct, "plan": plan,
                           "failed_checks": {"%s/%s" % k: v for k, v in fails.items()}},
            "direction2": winfo,
            "repository_test_suite_traces": rinfo,
            "value_semantics": {"module": "ValueTypes", "edge_pairs": 36 * 36, "node_pairs": 36, "laws_checked_by_tlc": 4},
            "explanation": "TLC explores the abstract mutation machine for all 96 GraphSpecs; the harness records forests of real "
                           "calls (exhaustive to the stated depth, plus random histories incl. batch forms and new_from_nodes_and_edges) "
                           "and TLC validates every event against AddEdgeRule/AddNodeRule; TLC-generated walks are replayed into the library.",
        }
        rc = verdict.finish()
        write_evidence(prop, tier, "model_checking", cov, time.time() - t0, len(verdict.violations),
                       ["TLC 1.8.0 and the Json/IOUtils community modules", "harness projection of a Graph through get_all_nodes/get_all_edges",
                        "names are i32, weights small integers or NaN, attributes i32 tags"])
        return rc
    finally:
        work.close()


def replay_mut(prop, gv, work, verdict, replay):
    """Re-executes a recorded history on the current tree and re-monitors it."""
    r = json.load(open(replay))
    if r.get("kind") == "walk":
        with open(work.path("w.ndjson"), "w") as f:
            f.write(json.dumps({"specs": r["specs"], "steps": r["steps"]}) + "\n")
        info = run_gv(gv, ["replay-walks", "--in", work.path("w.ndjson"), "--out", work.path("w.res")])
        if info["mismatches"]:
            print("VIOLATION property=%s replay=%s walk still differs" % (prop, replay))
            return 1
        print("replay: walk conforms")
        return 0
    with open(work.path("ops.json"), "w") as f:
        json.dump(r, f)
    run_gv(gv, ["replay-mut", "--in", work.path("ops.json"), "--out", work.path("t.ndjson")])
    results, _, _ = monitor_shards("MonitorMut", [work.path("t.ndjson")], work.dir)
    ncs = [x for x in parse_nonconf(results[0]["out"]) if x[1] in GROUPS[prop]]
    if ncs:
        print("VIOLATION property=%s replay=%s %s" % (prop, replay, ncs[:5]))
        return 1
    print("replay: history conforms")
    return 0


def run_family(prop, tier, replay=None):
    """C02, C03, C09: same pipeline as C01 with other trace shapes, models and deciding groups."""
    t0 = time.time()
    work = Work(prop)
    verdict = Verdict(prop)
    try:
        gv = build_harness()
        if replay:
            r = json.load(open(replay))
            if r.get("kind") == "algo":
                import checks_algo
                return checks_algo.replay_algo(prop, gv, work, replay, GROUPS[prop])
            return replay_mut(prop, gv, work, verdict, replay)
        plan = PLANS[(prop, tier)]
        mc = model_check(plan["mc"], MC_MODULE[prop], work)
        traces, nev, counts = gen_traces(gv, plan, work)
        log("recorded %d events in %d shards: %s" % (nev, len(traces), counts))
        results, distinct, generated = monitor_shards("MonitorMut", traces, work.dir)
        fails = judge(prop, verdict, traces, results)
        extra = {}
        if prop in ("C02", "C03"):
            rinfo, rdistinct, rgenerated = repo_tests_step(prop, work, verdict)
            distinct += rdistinct
            generated += rgenerated
            extra["repository_test_suite_traces"] = rinfo
        if prop == "C03":
            import checks_algo
            info = checks_algo.run_cases(prop, gv, work, verdict, suite="weighted", grid=0, groups=GROUPS[prop],
                                         gen=[("dups", plan["dups"], 2, 5, 0), ("halves", plan["dups"] // 5, 2, 5, 0),
                                              # a hub of 9-11 neighbours whose edges are re-added: lists beyond any small-list threshold
                                              ("hubdups", max(32, plan["dups"] // 25), 10, 12, 0)], families=[], nshards=NCPU)
            distinct += info["states"]
            generated += info["transitions"]
            extra["algorithm_level"] = info
            # eigenvector centrality traverses the edge store by name (get_edge per neighbour): judged, as in C18, against
            # the iteration over get_all_edges() - on the same duplicate-insertion histories
            info_e = checks_algo.run_cases(prop, gv, work, verdict, suite="eigen", grid=0, groups={"eigen"},
                                           gen=[("dups", plan["dups"] // 5, 2, 5, 0), ("halves", plan["dups"] // 10, 2, 5, 0)], families=[], nshards=NCPU, tag="_eig")
            distinct += info_e["states"]
            generated += info_e["transitions"]
            extra["eigenvector_on_histories"] = {k: info_e[k] for k in ("cases", "states", "failed_checks")}
        samples = []
        with open(traces[0]) as f:
            for i, line in enumerate(f):
                if i in (3, 60, 500):
                    e = json.loads(line)
                    samples.append({k: e[k] for k in ("parent", "op", "res", "post") if k in e})
        roots = counts.get("new", 0) + counts.get("new_from", 0)
        cov = {
            "states": mc["distinct"] + distinct,
            "transitions": mc["generated"] + generated,
            "traces_validated_against_impl": roots + extra.get("algorithm_level", {}).get("cases", 0),
            "samples": samples,
            "exhaustive": True,
            "model_checking": {"module": MC_MODULE[prop], "config": plan["mc"], "distinct_states": mc["distinct"],
                               "states_generated": mc["generated"], "specs": 96, "properties": MC_PROPS[prop]},
            "direction1": {"events_monitored": nev, "event_kinds": counts, "monitor_states": distinct, "plan": plan,
                           "deciding_groups": sorted(GROUPS[prop]),
                           "failed_checks": {"%s/%s" % k: v for k, v in fails.items()}},
            "explanation": EXPLAIN[prop],
        }
        cov.update(extra)
        rc = verdict.finish()
        write_evidence(prop, tier, "model_checking", cov, time.time() - t0, len(verdict.violations),
                       ["TLC 1.8.0 and the Json/IOUtils community modules", "harness projection and canonicalisation (harness/src/model.rs, query.rs)",
                        "hook Graph::verif_snapshot copies the private indexes faithfully",
                        "names are i32, weights small integers or NaN, attributes i32 tags"])
        return rc
    finally:
        work.close()
