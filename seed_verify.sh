#!/bin/sh
# seed_verify.sh <seed id>...: confirms in a scratch worktree that each seeded change compiles, leaves the
# existing tests' results unchanged, and that its demonstration fails with the change and passes without it.
WT=/tmp/wt/verify
export CARGO_TARGET_DIR=/tmp/wt/verify_target
[ -d $WT ] || git -C /repo worktree add --detach $WT HEAD >/dev/null 2>&1
for s in "$@"; do
  d=/verif/seeded/$s
  cd $WT && git checkout -q --detach $(git -C /repo rev-parse HEAD) && git checkout -q -- . && git clean -fdq
  git apply $d/patch.diff || { echo "$s: PATCH DOES NOT APPLY"; continue; }
  cp $d/demo_mutant.rs tests/demo_mutant_$$.rs
  FEAT=""; [ -f $d/features ] && FEAT="--features $(cat $d/features)"
  cargo test --offline --workspace --no-fail-fast $FEAT 2>&1 | grep -E "^test .* (FAILED|failed)$|^test .*\.\.\. FAILED" | sed 's/ \.\.\. FAILED//' | sort > /tmp/wt/verify_with.txt
  git checkout -q -- . 
  cargo test --offline $FEAT --test demo_mutant_$$ 2>&1 | grep -E "^test result" > /tmp/wt/verify_without.txt
  BASE='test_get_weighted_triangles_and_degrees_1|test_clustering_directed_weighted|test_clustering_undirected_weighted|line 232'
  DEMOS=$(grep -oE 'fn [a-z_0-9]+' $d/demo_mutant.rs | sed 's/fn //' | tr '\n' '|' | sed 's/|$//')
  other=$(grep -v -E "$BASE" /tmp/wt/verify_with.txt | grep -v -E "$DEMOS" | wc -l)
  demofail=$(grep -v -E "$BASE" /tmp/wt/verify_with.txt | grep -c -E "$DEMOS")
  echo "$s: failing-with-change=$(wc -l < /tmp/wt/verify_with.txt) (demonstration tests failing: $demofail; other non-baseline failures: $other) | without: $(cat /tmp/wt/verify_without.txt)"
  grep -v -E "$BASE" /tmp/wt/verify_with.txt | head -6
  rm -f tests/demo_mutant_$$.rs
done
