"""C07: parallel execution is unobservable.  TLC model-checks ParMap (every
interleaving of k workers over n items); the harness compares, bit for bit, the
answers of the five parallel functions inside rayon pools of every size with the
single-threaded answers and records the schedule actually executed (hooks); TLC
(spec/MonitorPar.tla) holds the verdict and validates each recorded schedule as a
behaviour of ParMap."""
import json, os, re, time
from vlib import *


def tlaps_proof():
    """The unbounded part: TLAPS proves for any number of workers and items that the combine sequence of the indexed
    shape is a prefix of the serial one and that nothing is combined before the barrier (spec/proofs/ParMapProof.tla)."""
    import subprocess
    t = time.time()
    r = subprocess.run(["timeout", "900", "tlapm", "--threads", "8", "-I", SPEC, "ParMapProof.tla"], cwd=os.path.join(SPEC, "proofs"),
                       capture_output=True, text=True)
    out = r.stdout + r.stderr
    m = re.search(r"All (\d+) obligations proved", out)
    if not m:
        raise ToolError("TLAPS did not prove spec/proofs/ParMapProof.tla (a statement about the specification, not about the code):\n" + out[-2000:])
    log("TLAPS proved ParMapProof: %s obligations in %.0fs" % (m.group(1), time.time() - t))
    return {"module": "proofs/ParMapProof.tla", "obligations_proved": int(m.group(1)),
            "theorems": ["IndexedSpec => []PrefixOfSerial", "IndexedSpec => []BarrierBeforeCombine", "KeyedSpec => []KeyedComplete"],
            "scope": "any number of workers K and any number of items"}


def run_c07(tier, replay=None):
    prop = "C07"
    t0 = time.time()
    work = Work(prop)
    verdict = Verdict(prop)
    try:
        gv = build_harness()
        mcs = []
        cfgs = ["ParMap_indexed.cfg", "ParMap_keyed.cfg"] + (["ParMap_indexed_thorough.cfg"] if tier == "thorough" else [])
        if not replay:
            for cfg in cfgs:
                res = run_tlc("ParMap.tla", cfg, work.path("mc"), workers=4, timeout=3000, heap="8g")
                if tlc_failed(res):
                    raise ToolError("model checking ParMap/%s failed:\n%s" % (cfg, tlc_error_text(res)))
                mcs.append({"config": cfg, "distinct_states": res["distinct"], "states_generated": res["generated"]})
            res = run_tlc("ParMap.tla", "ParMap_wrong.cfg", work.path("mc"), workers=2, timeout=600, heap="2g")
            if "PrefixOfSerial is violated" not in res["out"]:
                raise ToolError("ParMap no longer refutes the combine-on-finish variant: its invariants are vacuous")
            proof = tlaps_proof()
        trace = work.path("par.ndjson")
        sd = json.load(open(replay)).get("seed", 0) if replay else seed()
        th = json.load(open(replay)).get("thorough", 0) if replay else (1 if tier == "thorough" else 0)
        info = run_gv(gv, ["par", "--out", trace, "--thorough", th, "--seed", sd], timeout=7200)
        res = run_tlc("MonitorPar.tla", "MonitorPar.cfg", work.path("mon"), trace=trace, timeout=3000, heap="6g")
        if "MONITOR-DONE" not in res["out"]:
            raise ToolError("MonitorPar did not consume the whole trace:\n" + tlc_error_text(res))
        ncs = parse_nonconf(res["out"])
        evs = read_events(trace, [x[0] for x in ncs])
        lost = [l for l in res["out"].splitlines() if "BINDING-LOST" in l]
        fails = {}
        for eid, group, checks in ncs:
            ev = {k: v for k, v in evs[eid].items() if k != "hook"}
            for c in checks:
                fails[c] = fails.get(c, 0) + 1
                verdict.nonconf(group, c, ev, "%s: %s" % (c, json.dumps(ev)[:300]),
                                {"property": prop, "kind": "par", "seed": sd, "thorough": th, "event": ev})
        calls = par = conc = multi = hook_events = 0
        sample = None
        with open(trace) as f:
            for line in f:
                e = json.loads(line)
                if e["op"]["k"] == "par_call":
                    calls += 1
                    hook_events += len(e["hook"])
                    if e["expect_parallel"]:
                        par += 1
                        if e["distinct_threads"] >= 2:
                            multi += 1
                    if sample is None and e["pool"] == 4:
                        sample = dict({k: v for k, v in e.items() if k != "hook"}, hook_head=e["hook"][:12])
                else:
                    conc += 1
        if not replay and multi == 0:
            raise ToolError("no recorded call ran on more than one rayon thread: the parallel path was never exercised")
        if replay:
            print("replay: %s" % ("violations" if ncs else "conforms"))
            return verdict.finish()
        cov = {
            "states": sum(m["distinct_states"] for m in mcs) + res["distinct"],
            "transitions": sum(m["states_generated"] for m in mcs) + res["generated"],
            "traces_validated_against_impl": calls + conc,
            "samples": [sample],
            "model_checking": {"module": "ParMap", "runs": mcs, "wrong_variant_refuted": True,
                               "properties": ["RunOnce", "BarrierBeforeCombine", "PrefixOfSerial", "KeyedComplete", "FinalIsSerial", "Terminates"]},
            "tlaps_proof": proof if not replay else None,
            "direction1": {"par_call_events": calls, "concurrent_use_events": conc, "calls_expected_parallel": par,
                           "calls_observed_on_2_or_more_threads": multi, "hook_events_validated_as_ParMap_steps": hook_events,
                           "binding_lost": len(lost), "binding_lost_lines": lost[:5], "failed_checks": fails,
                           "pool_sizes": "2..16" if tier == "thorough" else "2,3,4,8,16", "functions": ["all_pairs", "multi_source", "get_all_shortest_paths_involving", "betweenness_centrality", "closeness_centrality", "all_pairs(target)", "all_pairs(cutoff, first_only)", "multi_source(subset, target, cutoff)", "get_all_shortest_paths_involving(every node)", "all_pairs(distances only)", "all_pairs(target, distances only)", "all_pairs(target, first_only)", "all_pairs(cutoff, distances only)", "multi_source(target, distances only)"]},
            "explanation": "ParMap is exhaustive for the model (all interleavings of k workers over n items). Real rayon schedules cannot be "
                           "controlled, so they are sampled: each function is run repeatedly inside ThreadPool::install for each pool size on graphs "
                           "with 21-60 nodes (tie-heavy unweighted; non-dyadic weights) and compared bit for bit with the pool-of-1 (serial path) "
                           "answer; 8 threads sharing one graph are compared likewise; one schedule per call is recorded by the hooks and validated "
                           "by TLC as a behaviour of ParMap.",
        }
        rc = verdict.finish()
        write_evidence(prop, tier, "model_checking", cov, time.time() - t0, len(verdict.violations),
                       ["rayon schedules are sampled, not enumerated (loom/shuttle cannot drive rayon's pool)",
                        "bit-for-bit comparison is done in the harness (harness/src/par.rs)", "TLC 1.8.0, Json/IOUtils"])
        return rc
    finally:
        work.close()
