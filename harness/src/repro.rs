//! C17: with a seed, randomised functions are pure functions of their arguments -
//! repeated calls in one process, calls in fresh processes and calls under different
//! rayon pool sizes give the same result; non-randomised algorithms give the same
//! answer on every call.

use crate::algo2::{family, louvain_call};
use crate::cases::case_json;
use crate::model::*;
use crate::mutgen::Emitter;
use crate::watchdog::Pool;
use graphrs::generators::random;
use rand::prelude::*;
use rand_chacha::ChaCha8Rng;
use serde_json::{json, Value};
use std::collections::BTreeSet;
use std::io::Write;
use std::time::Duration;

fn sp(directed: bool) -> SpecsJ {
    SpecsJ { directed, multi: false, loops: false, dedupe: 2, missing: 0, loopfalse: 1 }
}

fn case_of(directed: bool, n: i32, edges: Vec<(i32, i32)>, w: i64, tag: &str, rng: &mut ChaCha8Rng) -> Value {
    let mut names: Vec<i32> = (1..=n).collect();
    names.shuffle(rng);
    let mut es: Vec<EdgeArg> = edges.into_iter().map(|(u, v)| (u, v, w, 0)).collect();
    es.shuffle(rng);
    case_json(sp(directed), &[Op::AddNodes(names.into_iter().map(|x| (x, 0)).collect()), Op::AddEdges(es)], tag)
}

/// Graphs with exact ties between candidate communities.
pub fn tie_graphs(rng: &mut ChaCha8Rng, thorough: bool) -> Vec<Value> {
    let mut out = vec![];
    let maxn = if thorough { 12 } else { 9 };
    for directed in [false, true] {
        for n in 3..=maxn {
            out.push(case_of(directed, n, (1..n).map(|i| (i, i + 1)).collect(), NAN_W, "path", rng));
            out.push(case_of(directed, n, (1..=n).map(|i| (i, i % n + 1)).collect(), NAN_W, "cycle", rng));
            out.push(case_of(directed, n, (1..=n).map(|i| (i, i % n + 1)).collect(), 2, "cycle_w", rng));
        }
        for n in 3..=6 {
            let mut es = vec![];
            for u in 1..=n { for v in 1..=n { if u < v || (directed && u != v) { es.push((u, v)); } } }
            out.push(case_of(directed, n, es, NAN_W, "complete", rng));
            out.push(case_of(directed, n, (2..=n).map(|i| (1, i)).collect(), NAN_W, "star", rng));
        }
        // two cliques joined by a bridge; 3x3 grid; cube
        let mut es = vec![];
        for a in 1..=4 { for b in (a + 1)..=4 { es.push((a, b)); es.push((a + 4, b + 4)); } }
        es.push((4, 5));
        out.push(case_of(directed, 8, es, NAN_W, "barbell", rng));
        let mut es = vec![];
        for r in 0..3 { for c in 0..3 { let id = r * 3 + c + 1; if c < 2 { es.push((id, id + 1)); } if r < 2 { es.push((id, id + 3)); } } }
        out.push(case_of(directed, 9, es, NAN_W, "grid3", rng));
        let mut es = vec![];
        for a in 0..8 { for bit in 0..3 { let b = a ^ (1 << bit); if a < b { es.push((a + 1, b + 1)); } } }
        out.push(case_of(directed, 8, es, NAN_W, "cube", rng));
    }
    for i in 0..(if thorough { 60 } else { 12 }) {
        let specs = SpecsJ::kinds()[i % 8];
        let n = rng.gen_range(4..=10);
        let w: Vec<i64> = if i % 2 == 0 { vec![] } else { vec![1, 2] };
        out.push(case_json(specs, &crate::cases::random_graph(rng, specs, n, 0.35, &w), "random"));
    }
    // two concrete graphs on which seeded Louvain was observed to give different answers from call to
    // call (known finding F-C17-2), repeated often enough to show it on every run
    for (directed, es) in [
        (true, vec![(3, 2, 7, 0), (3, 1, 3, 0), (1, 3, 1, 0), (1, 2, 1, 0)]),
        (false, vec![(5, 4, 9, 0), (5, 3, 3, 0), (4, 6, 3, 0), (4, 1, 13, 0), (1, 2, 1, 0), (5, 2, 13, 0), (3, 4, 13, 0), (3, 1, 7, 0), (2, 4, 9, 0), (5, 1, 13, 0), (3, 2, 13, 0)]),
    ] {
        let ns: Vec<NodeArg> = if directed { vec![(1, 0), (3, 0), (2, 0)] } else { vec![(4, 0), (6, 0), (3, 0), (2, 0), (1, 0), (5, 0)] };
        let _ = &ns;
        let mut case = case_json(sp(directed), &[Op::AddNodes(ns), Op::AddEdges(es)], "frac");
        case["wdiv"] = json!(10);
        case["runs"] = json!(300);
        case["seeds"] = json!(4);
        out.push(case);
    }
    // an exact tie that only exact arithmetic sees: two heavy triangles and a hub attached to one by
    // 0.1 + 0.2 + 0.3 and to the other by 0.6 (the float sum is 0.6 or 0.6000000000000001 by order)
    for directed in [false, true] {
        let mut es: Vec<EdgeArg> = vec![];
        for (u, v, w) in [(1, 2, 40), (2, 3, 40), (1, 3, 40), (4, 5, 40), (5, 6, 40), (4, 6, 40), (7, 1, 1), (7, 2, 2), (7, 3, 3), (7, 4, 6)] {
            es.push((u, v, w, 0));
            if directed {
                es.push((v, u, w, 0));
            }
        }
        let mut case = case_json(sp(directed), &[Op::AddNodes((1..=7).map(|x| (x, 0)).collect()), Op::AddEdges(es)], "frac");
        case["wdiv"] = json!(10);
        case["runs"] = json!(200);
        case["seeds"] = json!(4);
        out.push(case);
    }
    // weights that are not dyadic (multiples of 1/10): sums of such weights depend on the order of
    // addition in the last bits, so any unordered accumulation can change which gain wins
    for i in 0..(if thorough { 80 } else { 24 }) {
        let specs = sp(i % 2 == 0);
        let n = rng.gen_range(3..=7);
        let mut case = case_json(specs, &crate::cases::random_graph(rng, specs, n, 0.6, &[1, 3, 7, 9, 13]), "frac");
        case["wdiv"] = json!(10);
        out.push(case);
    }
    out
}

/// The order inside a BFS level is not contractual: compare first element + set.
fn canon_components(mut v: Value) -> Value {
    if let Some(b) = v["bfs"].as_array_mut() {
        for x in b.iter_mut() {
            if let Some(list) = x["v"].as_array() {
                let first = list.first().cloned().unwrap_or(Value::Null);
                let mut rest: Vec<i64> = list.iter().filter_map(|y| y.as_i64()).collect();
                rest.sort();
                x["v"] = json!({"first": first, "set": rest});
            }
        }
    }
    v
}

fn distinct_of(results: &[Value]) -> Vec<Value> {
    let set: BTreeSet<String> = results.iter().map(|r| r.to_string()).collect();
    set.into_iter().map(|s| serde_json::from_str(&s).unwrap()).collect()
}

/// Executed inside a worker: `n` seeded louvain calls on one graph, optionally inside a pool.
/// Every second call is made on a graph built afresh from the same history: equal graphs, but each
/// instance's hash-based stores iterate in their own order ("each call sees freshly keyed hash tables").
pub fn louvain_repeat(g: &G, specs: SpecsJ, ops: &[Op], args: &Value) -> Value {
    let n = args["n"].as_u64().unwrap_or(1);
    let pool = args["pool"].as_u64().unwrap_or(0) as usize;
    let div = wdiv();
    let run = || -> Vec<Value> {
        (0..n)
            .map(|i| {
                if i % 2 == 1 {
                    set_wdiv(div); // thread-local: the closure may run on a pool thread
                    let fresh = build(specs, ops);
                    louvain_call(&fresh, &args["call"])
                } else {
                    louvain_call(g, &args["call"])
                }
            })
            .map(|r| json!({"ans": r["ans"], "comm": r["comm"]}))
            .collect()
    };
    let results = if pool > 0 { rayon::ThreadPoolBuilder::new().num_threads(pool).build().unwrap().install(run) } else { run() };
    json!({"e": "", "results": distinct_of(&results), "runs": n})
}

pub fn repro_events<W: Write>(em: &mut Emitter<W>, thorough: bool, seed: u64) {
    let mut rng = ChaCha8Rng::seed_from_u64(seed);
    let n_in = if thorough { 300 } else { 30 };
    let n_proc = if thorough { 20 } else { 5 };
    let mut pool = Pool::new();
    for case in tie_graphs(&mut rng, thorough) {
        let n_in = case["runs"].as_u64().unwrap_or(n_in);
        for sd in 0..case["seeds"].as_u64().unwrap_or(if thorough { 4 } else { 2 }) {
            let weighted = case["ops"][1]["es"].as_array().map(|a| !a.is_empty() && a[0][2].as_i64().unwrap() != NAN_W).unwrap_or(false);
            let call = json!({"weighted": weighted, "res": [1, 1], "res_default": true, "threshold_e7": -1, "seed": sd});
            let mut all: Vec<Value> = vec![];
            let mut status = "".to_string();
            let mut absorb = |r: Value, all: &mut Vec<Value>, status: &mut String| {
                if r["e"] == "" { for x in r["results"].as_array().unwrap() { all.push(x.clone()); } } else { *status = r["e"].as_str().unwrap_or("Abort").to_string(); }
            };
            // (a) repeated calls in one process
            let r = pool.call(&json!({"case": case, "call": {"kind": "louvain_repeat", "args": {"n": n_in, "pool": 0, "call": call}}}), Duration::from_secs(120));
            let in_process = r["results"].as_array().map(|a| a.len()).unwrap_or(0);
            absorb(r, &mut all, &mut status);
            // (b) fresh processes
            let mut across = vec![];
            for _ in 0..n_proc {
                let mut p2 = Pool::new();
                let r = p2.call(&json!({"case": case, "call": {"kind": "louvain_repeat", "args": {"n": 1, "pool": 0, "call": call}}}), Duration::from_secs(60));
                if r["e"] == "" { across.push(r["results"][0].clone()); }
                absorb(r, &mut all, &mut status);
            }
            // (c) rayon pool sizes
            let mut pools = vec![];
            for k in [1u64, 4, 16] {
                let r = pool.call(&json!({"case": case, "call": {"kind": "louvain_repeat", "args": {"n": 3, "pool": k, "call": call}}}), Duration::from_secs(60));
                if r["e"] == "" { for x in r["results"].as_array().unwrap() { pools.push(x.clone()); } }
                absorb(r, &mut all, &mut status);
            }
            let d = distinct_of(&all);
            em.emit(json!({"parent": 0, "op": {"k": "repro_louvain"}, "case": case, "seed": sd, "status": status,
                "runs_in_process": n_in, "distinct_in_process": in_process, "processes": n_proc, "distinct_across_processes": distinct_of(&across).len(),
                "distinct_across_pools": distinct_of(&pools).len(), "distinct_total": d.len(),
                "examples": d.iter().take(3).map(|x| x["ans"]["v"].clone()).collect::<Vec<_>>()}));
        }
    }
    // fast_gnp_random_graph with a seed
    // the last two sizes are beyond any size threshold a generator is likely to switch strategy at
    for &(n, pn, pd) in &[(5, 1, 2), (12, 1, 10), (30, 1, 2), (40, 9, 10), (64, 1, 100), (300, 1, 20), (1500, 1, 250)] {
        for directed in [true, false] {
            for sd in 0..(if thorough { 10 } else { 3 }) {
                let p = pn as f64 / pd as f64;
                let gen = move || -> Value {
                    match random::fast_gnp_random_graph(n, p, directed, Some(sd)) {
                        Ok(g) => {
                            let names: Vec<i32> = g.get_all_node_names().into_iter().copied().collect();
                            let mut es: Vec<(i32, i32)> = g.get_all_edges().iter().map(|e| (e.u, e.v)).collect();
                            es.sort();
                            json!({"nodes": names, "edges": es})
                        }
                        Err(e) => json!({"err": kind_name(&e.kind)}),
                    }
                };
                let mut all: Vec<Value> = (0..5).map(|_| gen()).collect();
                for k in [1usize, 2, 3, 8] {
                    all.push(rayon::ThreadPoolBuilder::new().num_threads(k).build().unwrap().install(gen));
                }
                for _ in 0..(if thorough { 5 } else { 2 }) {
                    let mut p2 = Pool::new();
                    let r = p2.call(&json!({"call": {"kind": "gnp", "n": n, "p": [pn, pd], "directed": directed, "seed": sd}}), Duration::from_secs(60));
                    all.push(r);
                }
                em.emit(json!({"parent": 0, "op": {"k": "repro_gnp"}, "n": n, "p": [pn, pd], "directed": directed, "seed": sd,
                    "calls": all.len(), "distinct_total": distinct_of(&all).len()}));
            }
        }
    }
    // non-randomised algorithms: the same answer on every call
    let mut pool2 = Pool::new();
    for i in 0..(if thorough { 400 } else { 60 }) {
        let specs = SpecsJ::kinds()[i % 8];
        let n = rng.gen_range(2..=7);
        let w: Vec<i64> = match i % 3 { 0 => vec![], 1 => vec![1, 2, 3], _ => vec![1, 8] };
        let ops = crate::cases::random_graph(&mut rng, specs, n, 0.4, &w);
        let mut rr = ChaCha8Rng::seed_from_u64(i as u64);
        let mut outs: Vec<Value> = vec![];
        for _ in 0..4 {
            // an equal graph built afresh for every repetition: its hash-based stores iterate in their own order
            let g = build(specs, &ops);
            let mut r1 = rr.clone();
            outs.push(json!({
                "paths": crate::algo::suite_paths(&g, 0), "centrality": crate::algo::suite_centrality(&g),
                "components": canon_components(crate::algo2::suite_components(&g, 1)), "cluster": crate::algo2::suite_cluster(&g, &mut r1, 7),
                "partitions": crate::algo2::suite_partitions(&g, &mut r1, 40),
            }));
        }
        let _ = rr.gen::<u8>();
        let _ = &mut pool2;
        // which suites differed between the calls
        let mut differing: Vec<&str> = vec![];
        for k in ["paths", "centrality", "components", "cluster", "partitions"] {
            if outs.iter().any(|o| o[k] != outs[0][k]) {
                differing.push(k);
            }
        }
        em.emit(json!({"parent": 0, "op": {"k": "repro_pure"}, "case": case_json(specs, &ops, "random"), "calls": 4,
            "distinct_total": distinct_of(&outs).len(), "differing_suites": differing}));
    }
    // non-randomised algorithms on graphs large enough for the data-parallel code paths (more than 20
    // nodes), under rayon pools of 1, 2 and 8 threads and the global pool
    for i in 0..(if thorough { 40 } else { 6 }) {
        let specs = SpecsJ::kinds()[i % 8];
        let n = rng.gen_range(21..=26);
        let w: Vec<i64> = match i % 2 { 0 => vec![], _ => vec![1, 2, 3] };
        let ops = crate::cases::random_graph(&mut rng, specs, n, 0.12, &w);
        let run = || -> Value {
            let g = build(specs, &ops);
            json!({"paths": crate::algo::suite_paths(&g, 0), "centrality": crate::algo::suite_centrality(&g),
                   "components": canon_components(crate::algo2::suite_components(&g, 1))})
        };
        let mut outs: Vec<Value> = vec![run()];
        for k in [1usize, 2, 8] {
            outs.push(rayon::ThreadPoolBuilder::new().num_threads(k).build().unwrap().install(run));
        }
        let mut differing: Vec<&str> = vec![];
        for k in ["paths", "centrality", "components"] {
            if outs.iter().any(|o| o[k] != outs[0][k]) {
                differing.push(k);
            }
        }
        em.emit(json!({"parent": 0, "op": {"k": "repro_pure"}, "case": case_json(specs, &ops, "random"), "calls": outs.len(),
            "distinct_total": distinct_of(&outs).len(), "differing_suites": differing, "pools": [0, 1, 2, 8]}));
    }
    let _ = family;
}
