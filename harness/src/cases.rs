//! Case generators: a case is {"specs":.., "ops":[..]} - a history that builds a graph.

use crate::model::*;
use rand::prelude::*;
use rand_chacha::ChaCha8Rng;
use serde_json::{json, Value};

pub fn case_json(specs: SpecsJ, ops: &[Op], tag: &str) -> Value {
    json!({"specs": specs.to_json(), "ops": ops.iter().map(|o| o.to_json()).collect::<Vec<_>>(), "tag": tag})
}

/// A random graph of the given kind: `n` nodes named 1..=n inserted in random order,
/// each admissible pair present with probability `p`; on multi-edge kinds up to 3
/// parallel edges.  `weights` empty = unweighted.  No duplicate insertions on
/// single-edge kinds (so no dedupe policy is exercised).
pub fn random_graph(rng: &mut ChaCha8Rng, specs: SpecsJ, n: i32, p: f64, weights: &[i64]) -> Vec<Op> {
    let mut names: Vec<i32> = (1..=n).collect();
    names.shuffle(rng);
    let mut es: Vec<EdgeArg> = vec![];
    for u in 1..=n {
        for v in 1..=n {
            if u == v && !specs.loops {
                continue;
            }
            if !specs.directed && u > v {
                continue;
            }
            if rng.gen_bool(p) {
                let k = if specs.multi { rng.gen_range(1..=3) } else { 1 };
                for _ in 0..k {
                    let w = if weights.is_empty() { NAN_W } else { *weights.choose(rng).unwrap() };
                    // random orientation on undirected graphs
                    let (a, b) = if !specs.directed && rng.gen_bool(0.5) { (v, u) } else { (u, v) };
                    es.push((a, b, w, 0));
                }
            }
        }
    }
    es.shuffle(rng);
    vec![Op::AddNodes(names.into_iter().map(|x| (x, 0)).collect()), Op::AddEdges(es)]
}

/// A random uniformly weighted mutation history with duplicate insertions (C03).
pub fn random_dup_history(rng: &mut ChaCha8Rng, k: i32, len: usize) -> Vec<Op> {
    let weights = [1i64, 2, 3, 5];
    let mut ops = vec![];
    for i in 0..len {
        let op = match rng.gen_range(0..10) {
            0 => Op::AddNode((rng.gen_range(1..=k), 0)),
            1..=2 => Op::AddEdges((0..rng.gen_range(1..=3)).map(|_| crate::mutgen::random_edge(rng, k, &weights, 0)).collect()),
            _ => Op::AddEdge(crate::mutgen::random_edge(rng, k, &weights, (i % 5) as i32)),
        };
        ops.push(op);
    }
    ops
}

/// A hub with k - 1 neighbours (k = 10..12): the nodes exist before the hub's edges, the edges arrive in a
/// shuffled order and direction, and then hub edges are added again with other weights.  The hub's adjacency
/// list is longer than any small-list threshold and is not sorted by node index when the duplicate handling
/// has to find an entry in it.
pub fn hub_dup_history(rng: &mut ChaCha8Rng, k: i32) -> Vec<Op> {
    use rand::seq::SliceRandom;
    let mut names: Vec<i32> = (1..=k).collect();
    if rng.gen_bool(0.5) {
        names.shuffle(rng);
    }
    let mut ops: Vec<Op> = names.iter().map(|n| Op::AddNode((*n, 0))).collect();
    let hub = names[rng.gen_range(0..names.len())];
    let mut others: Vec<i32> = names.iter().copied().filter(|x| *x != hub).collect();
    others.shuffle(rng);
    let out = rng.gen_bool(0.5);
    for &o in &others {
        ops.push(Op::AddEdge(if out { (hub, o, 10, 0) } else { (o, hub, 10, 0) }));
    }
    for i in 0..rng.gen_range(2..=4) {
        let o = *others.choose(rng).unwrap();
        let w = *[1i64, 2, 3, 20].choose(rng).unwrap();
        ops.push(Op::AddEdge(if out { (hub, o, w, i + 1) } else { (o, hub, w, i + 1) }));
    }
    for _ in 0..rng.gen_range(0..=3) {
        ops.push(Op::AddEdge(crate::mutgen::random_edge(rng, k, &[1, 2, 5], 0)));
    }
    ops
}

/// Structured graphs on which Louvain goes through several aggregation levels:
/// paths, cycles, rings of cliques, barbells, grids; undirected and directed; 8-40 nodes.
pub fn structured_cases(rng: &mut ChaCha8Rng, count: usize) -> Vec<Value> {
    let mut out = vec![];
    let sizes = [8, 12, 16, 24, 30, 40];
    let mut i = 0;
    while out.len() < count {
        let n = sizes[i % sizes.len()];
        let directed = (i / sizes.len()) % 2 == 1;
        let kind = (i / (2 * sizes.len())) % 4;
        let mut es: Vec<(i32, i32)> = vec![];
        match kind {
            0 => { for a in 1..n { es.push((a, a + 1)); } }
            1 => { for a in 1..=n { es.push((a, a % n + 1)); } }
            2 => {
                // ring of cliques of size 4
                let k = n / 4;
                for c in 0..k {
                    for a in 0..4 { for b in (a + 1)..4 { es.push((c * 4 + a + 1, c * 4 + b + 1)); } }
                    es.push((c * 4 + 4, ((c + 1) % k) * 4 + 1));
                }
            }
            _ => {
                let w = 4;
                for a in 1..=n { if a % w != 0 && a + 1 <= n { es.push((a, a + 1)); } if a + w <= n { es.push((a, a + w)); } }
            }
        }
        let specs = SpecsJ { directed, multi: false, loops: false, dedupe: 2, missing: 0, loopfalse: 1 };
        let mut names: Vec<i32> = (1..=n).collect();
        names.shuffle(rng);
        let w = if i % 3 == 0 { 2 } else { NAN_W };
        let mut ea: Vec<EdgeArg> = es.into_iter().map(|(u, v)| (u, v, w, 0)).collect();
        ea.shuffle(rng);
        out.push(case_json(specs, &[Op::AddNodes(names.into_iter().map(|x| (x, 0)).collect()), Op::AddEdges(ea)], "structured"));
        i += 1;
    }
    out
}

/// Sparse graphs with 70-130 nodes (size thresholds such as 64, 100 or 128 in batching / parallel fast paths):
/// a 10 x 7 grid, a cycle of 100 nodes with a few chords, a 13 x 10 grid with diagonals in one corner.
pub fn large_cases(rng: &mut ChaCha8Rng) -> Vec<Value> {
    let mut out = vec![];
    for directed in [false, true] {
        let specs = SpecsJ { directed, multi: false, loops: false, dedupe: 2, missing: 0, loopfalse: 1 };
        let mut shapes: Vec<(i32, Vec<(i32, i32)>)> = vec![];
        let mut es = vec![];
        for r in 0..7 { for c in 0..10 { let id = r * 10 + c + 1; if c < 9 { es.push((id, id + 1)); } if r < 6 { es.push((id, id + 10)); } } }
        shapes.push((70, es));
        let mut es = vec![];
        for a in 1..=100 { es.push((a, a % 100 + 1)); }
        for (a, b) in [(1, 40), (10, 77), (25, 60), (3, 5), (50, 52)] { es.push((a, b)); }
        shapes.push((100, es));
        let mut es = vec![];
        for r in 0..10 { for c in 0..13 { let id = r * 13 + c + 1; if c < 12 { es.push((id, id + 1)); } if r < 9 { es.push((id, id + 13)); } if r < 3 && c < 3 { es.push((id, id + 14)); } } }
        shapes.push((130, es));
        for (n, es) in shapes {
            let mut names: Vec<i32> = (1..=n).collect();
            names.shuffle(rng);
            let mut ea: Vec<EdgeArg> = es.into_iter().map(|(u, v)| if !directed && rng.gen_bool(0.5) { (v, u, NAN_W, 0) } else { (u, v, NAN_W, 0) }).collect();
            ea.shuffle(rng);
            out.push(case_json(specs, &[Op::AddNodes(names.into_iter().map(|x| (x, 0)).collect()), Op::AddEdges(ea)], "large"));
        }
    }
    out
}

/// Graphs with astronomically many shortest paths: a chain of k diamonds has 2^k shortest paths end to end,
/// a stack of layers of width 3 (each layer fully joined to the next) 3^(layers - 2), a square grid binomially many.
pub fn bigcount_cases() -> Vec<Value> {
    let mut out = vec![];
    for directed in [false, true] {
        let specs = SpecsJ { directed, multi: false, loops: false, dedupe: 2, missing: 0, loopfalse: 1 };
        // 66 diamonds: a_i - {b_i, c_i} - a_(i+1)
        let mut es: Vec<EdgeArg> = vec![];
        for i in 0..66 {
            let (a, b, c, a2) = (3 * i + 1, 3 * i + 2, 3 * i + 3, 3 * i + 4);
            for (u, v) in [(a, b), (a, c), (b, a2), (c, a2)] { es.push((u, v, NAN_W, 0)); }
        }
        out.push(case_json(specs, &[Op::AddEdges(es)], "diamonds66"));
        // 43 layers of width 3
        let mut es: Vec<EdgeArg> = vec![];
        for l in 0..42 {
            for x in 0..3 { for y in 0..3 { es.push((3 * l + x + 1, 3 * (l + 1) + y + 1, NAN_W, 0)); } }
        }
        out.push(case_json(specs, &[Op::AddEdges(es)], "layers43x3"));
    }
    // 36 x 36 grid, undirected
    let specs = SpecsJ { directed: false, multi: false, loops: false, dedupe: 2, missing: 0, loopfalse: 1 };
    let mut es: Vec<EdgeArg> = vec![];
    for r in 0..36 { for c in 0..36 { let id = r * 36 + c + 1; if c < 35 { es.push((id, id + 1, NAN_W, 0)); } if r < 35 { es.push((id, id + 36, NAN_W, 0)); } } }
    out.push(case_json(specs, &[Op::AddEdges(es)], "grid36"));
    out
}

/// Named graph shapes that shortcuts are typically written for (or forget): complete graphs, complete
/// bipartite graphs, stars, wheels, paths, cycles, ladders, a clique with a pendant path, two cliques sharing
/// a node, a shape plus isolated nodes, and the same with self-loops sprinkled in; directed versions with all
/// edges one way or both ways.  Small enough (4-9 nodes) for the exact oracles.
pub fn shape_cases(rng: &mut ChaCha8Rng, count: usize) -> Vec<Value> {
    let mut out = vec![];
    let mut i = 0usize;
    while out.len() < count {
        let n: i32 = 4 + (i % 5) as i32; // 4..8
        let shape = (i / 5) % 11;
        let variant = i / 55; // 0: undirected, 1: directed one way, 2: directed both ways, 3: undirected + self-loops, 4: directed + self-loops
        let directed = matches!(variant % 5, 1 | 2 | 4);
        let both = variant % 5 == 2;
        let loops = matches!(variant % 5, 3 | 4);
        let mut es: Vec<(i32, i32)> = vec![];
        let mut extra_nodes = 0;
        match shape {
            0 => { for a in 1..=n { for b in (a + 1)..=n { es.push((a, b)); } } }                       // complete
            1 => { let h = n / 2; for a in 1..=h { for b in (h + 1)..=n { es.push((a, b)); } } }        // complete bipartite
            2 => { for b in 2..=n { es.push((1, b)); } }                                                // star
            3 => { for b in 2..=n { es.push((1, b)); es.push((b, if b == n { 2 } else { b + 1 })); } }  // wheel
            4 => { for a in 1..n { es.push((a, a + 1)); } }                                             // path
            5 => { for a in 1..=n { es.push((a, a % n + 1)); } }                                        // cycle
            6 => { let h = n / 2; for a in 1..h { es.push((a, a + 1)); es.push((a + h, a + h + 1)); } for a in 1..=h { es.push((a, a + h)); } } // ladder
            7 => { let k = n - 2; for a in 1..=k { for b in (a + 1)..=k { es.push((a, b)); } } es.push((k, k + 1)); es.push((k + 1, k + 2)); } // clique + pendant path
            8 => { let h = (n + 1) / 2; for a in 1..=h { for b in (a + 1)..=h { es.push((a, b)); } } for a in h..=n { for b in (a + 1)..=n { es.push((a, b)); } } } // two cliques sharing node h
            9 => { let k = n - 1; for a in 1..=k { for b in (a + 1)..=k { es.push((a, b)); } } extra_nodes = 2; }  // clique + isolated nodes
            _ => { for a in 1..=(n - 2) { es.push((a, a + 1)); } es.push((n - 2, 1)); extra_nodes = 1; }          // cycle + one more component (edge n-1 - n)
        }
        if shape == 10 { es.push((n - 1, n)); }
        es.sort();
        es.dedup();
        es.retain(|(a, b)| a != b);
        let total = n + extra_nodes;
        let specs = SpecsJ { directed, multi: false, loops, dedupe: 2, missing: 0, loopfalse: 1 };
        let wmode = (i / 5) % 4;
        let mut ea: Vec<EdgeArg> = vec![];
        for (j, (u, v)) in es.iter().enumerate() {
            let w: i64 = match wmode { 0 => NAN_W, 1 => 2, 2 => 1 + (*u as i64 % 3), _ => if j == 0 { 5 } else { 1 } };
            let (a, b) = if !directed && rng.gen_bool(0.5) { (*v, *u) } else { (*u, *v) };
            ea.push((a, b, w, 0));
            if both { ea.push((b, a, w, 0)); }
        }
        if loops {
            for x in 1..=total { if x % 2 == 1 { ea.push((x, x, if wmode == 0 { NAN_W } else { 1 + (x as i64 % 3) }, 0)); } }
        }
        ea.shuffle(rng);
        let mut names: Vec<i32> = (1..=total).collect();
        names.shuffle(rng);
        out.push(case_json(specs, &[Op::AddNodes(names.into_iter().map(|x| (x, 0)).collect()), Op::AddEdges(ea)], "shape"));
        i += 1;
    }
    out
}

/// Trees with very uneven levels: a star with a tail (broom), two stars joined by a path, a caterpillar.
/// A level-synchronous search meets a level much wider than what is left to find.  Paths are unique.
pub fn broom_cases(rng: &mut ChaCha8Rng, count: usize, minn: i32, maxn: i32) -> Vec<Value> {
    let mut out = vec![];
    for i in 0..count {
        let n = rng.gen_range(minn.max(6)..=maxn.max(6));
        let directed = i % 2 == 1;
        let mut es: Vec<(i32, i32)> = vec![];
        match i % 3 {
            0 => {
                // broom: centre 1, tail 2..=t+1 hanging off the centre, the rest leaves
                let t = rng.gen_range(2..=4.min(n - 3));
                es.push((1, 2));
                for a in 2..=t { es.push((a, a + 1)); }
                for leaf in (t + 2)..=n { es.push((1, leaf)); }
            }
            1 => {
                // two stars joined by a path of length 3
                let half = (n - 2) / 2;
                es.push((1, 2)); es.push((2, 3)); es.push((3, 4));
                for leaf in 5..(5 + half - 1) { es.push((1, leaf)); }
                for leaf in (5 + half - 1)..=n { es.push((4, leaf)); }
            }
            _ => {
                // caterpillar: spine 1..=s, the other nodes hang off spine nodes, most of them off the first
                let s_len = rng.gen_range(3..=5.min(n - 2));
                for a in 1..s_len { es.push((a, a + 1)); }
                for leaf in (s_len + 1)..=n { es.push((if leaf % 4 == 0 { rng.gen_range(1..=s_len) } else { 1 }, leaf)); }
            }
        }
        let w: i64 = if i % 4 == 0 { 2 } else { NAN_W };
        let mut names: Vec<i32> = (1..=n).collect();
        names.shuffle(rng);
        // a random relabelling, so that insertion order, name order and distance from the hub are unrelated
        let mut relabel: Vec<i32> = (1..=n).collect();
        relabel.shuffle(rng);
        let mut ea: Vec<EdgeArg> = es
            .into_iter()
            .map(|(u, v)| {
                let (a, b) = (relabel[(u - 1) as usize], relabel[(v - 1) as usize]);
                let (a, b) = if directed && rng.gen_bool(0.3) { (b, a) } else { (a, b) };
                (a, b, if w == NAN_W { NAN_W } else { rng.gen_range(1..=3) }, 0)
            })
            .collect();
        ea.shuffle(rng);
        let specs = SpecsJ { directed, multi: false, loops: false, dedupe: 2, missing: 0, loopfalse: 1 };
        out.push(case_json(specs, &[Op::AddNodes(names.into_iter().map(|x| (x, 0)).collect()), Op::AddEdges(ea)], "broom"));
    }
    out
}

/// Random forests with more than 20 nodes (the parallel code path): shortest paths are
/// unique, so betweenness values are integers or halves and closeness values have small
/// denominators - the specification's 32-bit rationals can judge them.
pub fn forest_cases(rng: &mut ChaCha8Rng, count: usize, minn: i32, maxn: i32) -> Vec<Value> {
    let mut out = vec![];
    for i in 0..count {
        let n = rng.gen_range(minn..=maxn);
        let directed = i % 2 == 0;
        let comps = rng.gen_range(1..=3);
        let mut names: Vec<i32> = (1..=n).collect();
        names.shuffle(rng);
        let mut es: Vec<EdgeArg> = vec![];
        let w: i64 = if i % 3 == 0 { 2 } else { NAN_W };
        // node j (in shuffled order) attaches to an earlier node of its component
        for j in (comps as usize)..names.len() {
            let comp = j % comps as usize;
            let earlier: Vec<usize> = (0..j).filter(|x| x % comps as usize == comp).collect();
            let p = earlier[rng.gen_range(0..earlier.len())];
            let (a, b) = if rng.gen_bool(0.5) { (names[p], names[j]) } else { (names[j], names[p]) };
            es.push((a, b, if w == NAN_W { NAN_W } else { rng.gen_range(1..=3) }, 0));
        }
        let specs = SpecsJ { directed, multi: false, loops: false, dedupe: 2, missing: 0, loopfalse: 1 };
        let mut order = names.clone();
        order.shuffle(rng);
        out.push(case_json(specs, &[Op::AddNodes(order.into_iter().map(|x| (x, 0)).collect()), Op::AddEdges(es)], "forest"));
    }
    out
}
