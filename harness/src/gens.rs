//! Observation of the generators (C16, and the fast_gnp part of C17).

use crate::algo::guarded;
use crate::model::kind_name;
use crate::mutgen::Emitter;
use graphrs::generators::{classic, random, social};
use graphrs::Graph;
use rand::{Rng, RngCore, SeedableRng};
use rand_chacha::ChaCha20Rng;
use serde_json::{json, Value};
use std::collections::HashSet;
use std::io::Write;

fn pairs_count(n: i64, directed: bool) -> i64 {
    if directed {
        n * (n - 1)
    } else {
        n * (n - 1) / 2
    }
}

/// Structural facts of one generated graph.
fn structure(g: &Graph<i32, ()>, n: i32, directed: bool) -> Value {
    let names: Vec<i32> = g.get_all_node_names().into_iter().copied().collect();
    let nodes_ok = names == (0..n).collect::<Vec<i32>>();
    let mut seen = HashSet::new();
    let (mut loops, mut repeats, mut out_of_range) = (0, 0, 0);
    for e in g.get_all_edges() {
        if e.u == e.v {
            loops += 1;
        }
        if e.u < 0 || e.u >= n || e.v < 0 || e.v >= n {
            out_of_range += 1;
        }
        let key = if directed || e.u <= e.v { (e.u, e.v) } else { (e.v, e.u) };
        if !seen.insert(key) {
            repeats += 1;
        }
    }
    json!({"nodes_ok": nodes_ok, "loops": loops, "repeats": repeats, "out_of_range": out_of_range,
           "m": g.get_all_edges().len(), "directed": g.specs.directed, "multi": g.specs.multi_edges})
}

fn edge_list(g: &Graph<i32, ()>, directed: bool) -> Vec<(i32, i32)> {
    let mut v: Vec<(i32, i32)> = g.get_all_edges().iter().map(|e| if directed || e.u <= e.v { (e.u, e.v) } else { (e.v, e.u) }).collect();
    v.sort();
    v
}

/// The skip sequence the library draws for (p, seed): same generator, same arithmetic.
fn skips(p: f64, seed: u64, count: usize) -> Vec<i64> {
    let mut rng: Box<dyn RngCore> = Box::new(ChaCha20Rng::seed_from_u64(seed));
    let lp = (1.0 - p).ln();
    (0..count)
        .map(|_| {
            let lr: f64 = (1.0_f64 - rng.gen::<f64>()).ln();
            ((lr / lp) as i32) as i64
        })
        .collect()
}

pub fn gnp_events<W: Write>(em: &mut Emitter<W>, nmax: i32, nseeds: u64, thorough: bool, seed0: u64) {
    let ps: Vec<(i64, i64)> = vec![(1, 1_000_000), (1, 100), (1, 10), (1, 2), (9, 10), (999, 1000)];
    let ns: Vec<i32> = if thorough {
        (0..=40).chain([50, 64, 100, 128, 200, 250, 300]).filter(|n| *n <= nmax).collect()
    } else {
        (0..=12).chain([16, 21, 30, 40]).filter(|n| *n <= nmax).collect()
    };
    for &n in &ns {
        for &(pn, pd) in &ps {
            for directed in [true, false] {
                let p = pn as f64 / pd as f64;
                let big = n > 60;
                let s = if big { (nseeds / 8).max(20) } else { nseeds };
                let pairs = pairs_count(n as i64, directed);
                let mut sum_m: i64 = 0;
                let (mut bad_err, mut bad_nodes, mut loops, mut repeats, mut oor, mut wrong_kind, mut panics) = (0, 0, 0, 0, 0, 0, 0);
                let mut first_bad: Value = json!({});
                let track = n <= 7 && (pn, pd) == (1, 2);
                let mut pair_counts: std::collections::HashMap<(i32, i32), i64> = Default::default();
                for k in 0..s {
                    let seed = seed0.wrapping_mul(100_003).wrapping_add(k);
                    let r = guarded(|| match random::fast_gnp_random_graph(n, p, directed, Some(seed)) {
                        Ok(g) => {
                            let mut st = structure(&g, n, directed);
                            st["e"] = json!("");
                            if track {
                                st["edges"] = json!(edge_list(&g, directed));
                            }
                            st
                        }
                        Err(e) => json!({"e": kind_name(&e.kind)}),
                    });
                    let bad;
                    if r["e"] == "Panic" {
                        panics += 1;
                        bad = true;
                    } else if r["e"] != "" {
                        bad_err += 1;
                        bad = true;
                    } else {
                        sum_m += r["m"].as_i64().unwrap();
                        let b1 = !r["nodes_ok"].as_bool().unwrap();
                        let l = r["loops"].as_i64().unwrap();
                        let rp = r["repeats"].as_i64().unwrap();
                        let o = r["out_of_range"].as_i64().unwrap();
                        let wk = r["directed"].as_bool().unwrap() != directed || r["multi"].as_bool().unwrap();
                        bad_nodes += b1 as i64;
                        loops += l;
                        repeats += rp;
                        oor += o;
                        wrong_kind += wk as i64;
                        bad = b1 || l > 0 || rp > 0 || o > 0 || wk;
                        if track {
                            for e in r["edges"].as_array().unwrap() {
                                *pair_counts.entry((e[0].as_i64().unwrap() as i32, e[1].as_i64().unwrap() as i32)).or_insert(0) += 1;
                            }
                        }
                    }
                    if bad && first_bad == json!({}) {
                        first_bad = json!({"seed": seed, "result": r});
                    }
                }
                // mean test: |sum - S*p*pairs| <= S*p*pairs/(n-1) + 6 sigma ; z in thousandths of sigma beyond the allowance
                let ok_runs = (s as i64 - bad_err - panics) as f64;
                let mu = ok_runs * p * pairs as f64;
                let sigma = (ok_runs * pairs as f64 * p * (1.0 - p)).sqrt();
                let allowance = if n > 1 { mu / (n as f64 - 1.0) } else { 0.0 };
                let excess = ((sum_m as f64 - mu).abs() - allowance).max(0.0);
                let z_milli = if sigma > 0.0 { (excess / sigma * 1000.0).round().min(2.0e9) as i64 } else if excess > 0.0 { 2_000_000_000 } else { 0 };
                // per-pair frequencies (small n, p = 1/2): every pair occurs; frequency within 6 sigma of [p, p(2-p)]
                let (mut pair_missing, mut pair_z_milli) = (0i64, 0i64);
                if track && ok_runs > 0.0 {
                    let sg = (ok_runs * p * (1.0 - p)).sqrt();
                    for a in 0..n {
                        for b in 0..n {
                            if a == b || (!directed && a > b) {
                                continue;
                            }
                            let c = *pair_counts.get(&(a, b)).unwrap_or(&0) as f64;
                            if c == 0.0 {
                                pair_missing += 1;
                            }
                            let lo = ok_runs * p;
                            let hi = ok_runs * p * (2.0 - p);
                            let ex = if c < lo { lo - c } else if c > hi { c - hi } else { 0.0 };
                            pair_z_milli = pair_z_milli.max((ex / sg * 1000.0).round() as i64);
                        }
                    }
                }
                em.emit(json!({"parent": 0, "op": {"k": "gnp_run"}, "n": n, "p": [pn, pd], "directed": directed, "seeds": s,
                    "errors": bad_err, "panics": panics, "bad_nodes": bad_nodes, "loops": loops, "repeats": repeats, "out_of_range": oor,
                    "wrong_kind": wrong_kind, "sum_m": sum_m, "pairs": pairs, "z_milli": z_milli,
                    "tracked": track, "pair_missing": pair_missing, "pair_z_milli": pair_z_milli, "first_bad": first_bad}));
            }
        }
    }
    // extreme probabilities: only success and well-formedness are required
    {
        let sizes: &[i32] = if thorough { &[0, 1, 2, 3, 5, 40, 300] } else { &[0, 1, 2, 5, 40] };
        for &n in sizes {
            for p in [1.0e-12, 1.0e-17, 1.0e-300, f64::MIN_POSITIVE, 5.0e-324, 1.0 - 1.0e-12, 1.0 - f64::EPSILON / 2.0] {
                for directed in [true, false] {
                    let r = guarded(|| match random::fast_gnp_random_graph(n, p, directed, Some(seed0)) {
                        Ok(g) => { let mut st = structure(&g, n, directed); st["e"] = json!(""); st }
                        Err(e) => json!({"e": kind_name(&e.kind)}),
                    });
                    em.emit(json!({"parent": 0, "op": {"k": "gnp_extreme"}, "n": n, "p_text": format!("{:e}", p), "directed": directed, "r": r}));
                }
            }
        }
    }
    // invalid probabilities
    for (txt, p) in [("0", 0.0), ("1", 1.0), ("-0.5", -0.5), ("1.5", 1.5), ("NaN", f64::NAN), ("-0", -0.0), ("inf", f64::INFINITY)] {
        for directed in [true, false] {
            let r = guarded(|| match random::fast_gnp_random_graph(5, p, directed, Some(1)) {
                Ok(_) => json!({"e": ""}),
                Err(e) => json!({"e": kind_name(&e.kind)}),
            });
            em.emit(json!({"parent": 0, "op": {"k": "gnp_arg"}, "p_text": txt, "directed": directed, "e": r["e"]}));
        }
    }
    // binding of the skipping model: replay of the library's own skip sequence
    for &n in &[2, 3, 5, 8, 13, 30] {
        if n > nmax {
            continue;
        }
        for &(pn, pd) in &[(1i64, 10i64), (1, 2), (9, 10)] {
            for directed in [true, false] {
                for k in 0..(if thorough { 20 } else { 4 }) {
                    let seed = seed0 + 1000 + k;
                    let p = pn as f64 / pd as f64;
                    let sk = skips(p, seed, (n * n + 2) as usize);
                    let r = guarded(|| match random::fast_gnp_random_graph(n, p, directed, Some(seed)) {
                        Ok(g) => json!({"e": "", "v": g.get_all_edges().iter().map(|e| json!([e.u, e.v])).collect::<Vec<_>>()}),
                        Err(e) => json!({"e": kind_name(&e.kind), "v": []}),
                    });
                    // edges in emission order are not observable (hash map); compare as sets of emitted (v, w)
                    let mut es: Vec<(i64, i64)> = r["v"].as_array().map(|a| a.iter().map(|x| (x[0].as_i64().unwrap(), x[1].as_i64().unwrap())).collect()).unwrap_or_default();
                    if !directed {
                        es = es.into_iter().map(|(a, b)| if a >= b { (a, b) } else { (b, a) }).collect();
                    }
                    es.sort();
                    em.emit(json!({"parent": 0, "op": {"k": "gnp_skips"}, "n": n, "p": [pn, pd], "directed": directed, "seed": seed,
                        "skips": sk, "e": r["e"], "edges": es}));
                }
            }
        }
    }
    // complete graphs and the karate club
    for n in 0..=(if thorough { 12 } else { 8 }) {
        for directed in [true, false] {
            let r = guarded(|| {
                let g = classic::complete_graph(n, directed);
                let mut st = structure(&g, n, directed);
                st["e"] = json!("");
                let mut names: Vec<i32> = g.get_all_node_names().into_iter().copied().collect();
                names.sort();
                st["names"] = json!(names);
                st["edges"] = json!(edge_list(&g, directed));
                st
            });
            em.emit(json!({"parent": 0, "op": {"k": "complete"}, "n": n, "directed": directed, "r": r}));
        }
    }
    // sizes on either side of thresholds a generator may key on: the structure only; with no loop, no repeat, no
    // out-of-range endpoint and the full count, the edge set is the complete one (CompleteBigChecks)
    let mut big: Vec<i32> = vec![20, 21, 26, 63, 64, 65, 127, 128, 129, 200, 257];
    if thorough {
        big.extend([300, 513, 1000, 1001]);
    }
    for n in big {
        for directed in [true, false] {
            let r = guarded(|| {
                let g = classic::complete_graph(n, directed);
                let mut st = structure(&g, n, directed);
                st["e"] = json!("");
                st
            });
            em.emit(json!({"parent": 0, "op": {"k": "complete_big"}, "n": n, "directed": directed, "r": r}));
        }
    }
    let r = guarded(|| {
        let g = social::karate_club_graph();
        let mut st = structure(&g, 34, false);
        st["e"] = json!("");
        st["loops_allowed"] = json!(g.specs.self_loops);
        st
    });
    em.emit(json!({"parent": 0, "op": {"k": "karate"}, "r": r}));
}

/// Value semantics of Edge and Node over a small universe (spec/ValueTypes.tla).
pub fn value_events<W: Write>(em: &mut Emitter<W>) {
    use graphrs::{Edge, Node};
    use std::collections::hash_map::DefaultHasher;
    use std::hash::{Hash, Hasher};
    fn h<T: Hash>(x: &T) -> u64 {
        let mut s = DefaultHasher::new();
        x.hash(&mut s);
        s.finish()
    }
    let mk = |u: i32, v: i32, w: i64, a: i32| Edge::<i32, i32> { u, v, weight: crate::model::w_to_f(w), attributes: if a == 0 { None } else { Some(a) } };
    let ej = |e: &Edge<i32, i32>| json!([e.u, e.v, crate::model::f_to_w(e.weight), e.attributes.unwrap_or(0)]);
    let mut edges = vec![];
    for u in 1..=3 { for v in 1..=3 { for w in [-1i64, 1] { for a in [0, 1] { edges.push(mk(u, v, w, a)); } } } }
    let edge1: Vec<Value> = edges.iter().map(|e| json!({"e": ej(e), "ordered": ej(&e.ordered()), "reversed": ej(&e.reversed())})).collect();
    let mut edge2 = vec![];
    for a in &edges { for b in &edges {
        edge2.push(json!({"a": ej(a), "b": ej(b), "eq": a == b, "cmp": match a.cmp(b) { std::cmp::Ordering::Less => -1, std::cmp::Ordering::Equal => 0, _ => 1 },
            "same_hash": h(a) == h(b)}));
    } }
    let mut nodes = vec![];
    for n in 1..=3 { for a in [0, 1] { nodes.push(Node::<i32, i32> { name: n, attributes: if a == 0 { None } else { Some(a) } }); } }
    let nj = |n: &Node<i32, i32>| json!([n.name, n.attributes.unwrap_or(0)]);
    let mut node2 = vec![];
    for a in &nodes { for b in &nodes {
        node2.push(json!({"a": nj(a), "b": nj(b), "eq": a == b, "cmp": match a.cmp(b) { std::cmp::Ordering::Less => -1, std::cmp::Ordering::Equal => 0, _ => 1 },
            "same_hash": h(a) == h(b)}));
    } }
    // the named GraphSpecs constructors as points of the 96-element space
    use graphrs::GraphSpecs;
    let sj = |s: GraphSpecs| crate::model::SpecsJ::from_specs(&s).to_json();
    let ctors = json!({
        "directed": sj(GraphSpecs::directed()), "directed_create_missing": sj(GraphSpecs::directed_create_missing()),
        "undirected": sj(GraphSpecs::undirected()), "undirected_create_missing": sj(GraphSpecs::undirected_create_missing()),
        "multi_directed": sj(GraphSpecs::multi_directed()), "multi_undirected": sj(GraphSpecs::multi_undirected()),
    });
    em.emit(json!({"parent": 0, "op": {"k": "values"}, "edge1": edge1, "edge2": edge2, "node2": node2, "ctors": ctors}));
}
