//! Observation of the algorithm layer: for a case (a history that builds a graph)
//! run a suite of algorithm calls on the real library and log the canonicalised
//! answers, to be judged by spec/MonitorAlgo.tla.

use crate::model::*;
use crate::mutgen::{panic_msg, Emitter};
use crate::rat::rat;
use graphrs::algorithms::centrality::{betweenness, closeness};
use graphrs::algorithms::shortest_path::{dijkstra, ShortestPathInfo};
use graphrs::Error;
use serde_json::{json, Value};
use std::collections::HashMap;
use std::io::Write;
use std::panic::{catch_unwind, AssertUnwindSafe};

pub fn err_ans(e: &Error) -> Value {
    json!({"e": kind_name(&e.kind), "v": []})
}

/// Runs `f` under catch_unwind; a panic becomes the answer {"e": "Panic", ...}.
pub fn guarded<F: FnOnce() -> Value>(f: F) -> Value {
    match catch_unwind(AssertUnwindSafe(f)) {
        Ok(v) => v,
        Err(p) => json!({"e": "Panic", "v": [], "panic": panic_msg(p)}),
    }
}

/// `scale`: factor from the library's distances to the specification's integer weight units
/// (the case's weight divisor in weighted mode, 1 in hop-count mode).
fn ss_value(m: &HashMap<i32, ShortestPathInfo<i32>>, scale: f64) -> Value {
    let mut keys: Vec<&i32> = m.keys().collect();
    keys.sort();
    Value::Array(
        keys.into_iter()
            .map(|t| {
                let spi = &m[t];
                let mut paths = spi.paths.clone();
                paths.sort();
                json!([t, rat(spi.distance * scale), paths])
            })
            .collect(),
    )
}

/// The paths of every reported node in the order the library returned them (the order is
/// not contractual; it binds spec/DijkstraRules.tla, which predicts it, to the code).
fn ss_raw(r: &Result<HashMap<i32, ShortestPathInfo<i32>>, Error>) -> Value {
    match r {
        Ok(m) => {
            let mut keys: Vec<&i32> = m.keys().collect();
            keys.sort();
            Value::Array(keys.into_iter().map(|t| json!([t, m[t].paths])).collect())
        }
        Err(_) => json!([]),
    }
}

/// The traversal lists Dijkstra scans: per position the (1-based position, weight) pairs in stored order.
#[cfg(graphrs_verif)]
fn adjacency(g: &G) -> Value {
    let s = g.verif_snapshot();
    Value::Array(
        s.successors_vec
            .iter()
            .map(|l| Value::Array(l.iter().map(|(i, w)| json!([i + 1, f_to_w(*w)])).collect()))
            .collect(),
    )
}
#[cfg(not(graphrs_verif))]
fn adjacency(_g: &G) -> Value {
    json!([])
}

fn ss_ans(r: Result<HashMap<i32, ShortestPathInfo<i32>>, Error>, scale: f64) -> Value {
    match r {
        Ok(m) => json!({"e": "", "v": ss_value(&m, scale)}),
        Err(e) => err_ans(&e),
    }
}

fn ap_ans(r: Result<HashMap<i32, HashMap<i32, ShortestPathInfo<i32>>>, Error>, scale: f64) -> Value {
    match r {
        Ok(m) => {
            let mut keys: Vec<&i32> = m.keys().collect();
            keys.sort();
            json!({"e": "", "v": keys.into_iter().map(|s| json!([s, ss_value(&m[s], scale)])).collect::<Vec<_>>()})
        }
        Err(e) => err_ans(&e),
    }
}

fn cutoff_f(c2: i64, scale: f64) -> Option<f64> {
    if c2 < 0 {
        None
    } else {
        Some(c2 as f64 / 2.0 / scale)
    }
}
fn target_o(t: i32) -> Option<i32> {
    if t == 0 {
        None
    } else {
        Some(t)
    }
}

fn f64_map_ans(r: Result<HashMap<i32, f64>, Error>, factor: f64) -> Value {
    match r {
        Ok(m) => {
            let mut v: Vec<(i32, f64)> = m.into_iter().collect();
            v.sort_by_key(|x| x.0);
            json!({"e": "", "v": v.into_iter().map(|(k, x)| json!([k, rat(x * factor)])).collect::<Vec<_>>()})
        }
        Err(e) => err_ans(&e),
    }
}

/// Which weighted modes make sense for this graph: hop-count always; weighted only
/// when every edge has a weight (the properties assume non-negative real weights).
fn modes(g: &G) -> Vec<bool> {
    if g.edges_have_weight() && !g.get_all_edges().is_empty() {
        vec![false, true]
    } else {
        vec![false]
    }
}

/// Distinct cutoff values (times two) for the option grid: below the minimum, every
/// distinct distance, and every midpoint between consecutive distinct distances.
fn cutoffs2(dists: &[f64]) -> Vec<i64> {
    let mut d: Vec<i64> = dists.iter().filter(|x| x.is_finite() && **x >= 0.0).map(|x| (*x * 2.0).round() as i64).collect();
    d.sort();
    d.dedup();
    let mut out = vec![];
    for (i, x) in d.iter().enumerate() {
        out.push(*x);
        if i + 1 < d.len() {
            out.push((x + d[i + 1]) / 2);
        }
    }
    if let Some(last) = d.last() {
        out.push(last + 2);
    }
    out.sort();
    out.dedup();
    out
}

/// suite "paths": C04 (basic calls) and, with `grid`, the C08 option grid.
pub fn suite_paths(g: &G, grid: u8) -> Value {
    let names: Vec<i32> = g.get_all_node_names().into_iter().copied().collect();
    let mut ss = vec![];
    let mut ap = vec![];
    let mut ms = vec![];
    let mut inv = vec![];
    let div = wdiv() as f64;
    for weighted in modes(g) {
        let scale = if weighted { div } else { 1.0 };
        for &s in &names {
            let mut calls = vec![];
            let mut call = |t: i32, c2: i64, fo: bool, wp: bool| {
                let mut raw = json!([]);
                let ans = guarded(|| {
                    let r = dijkstra::single_source(g, weighted, s, target_o(t), cutoff_f(c2, scale), fo, wp);
                    if wp && names.len() <= 8 {
                        raw = ss_raw(&r);
                    }
                    ss_ans(r, scale)
                });
                calls.push(json!({"target": t, "cutoff": c2, "first_only": fo, "with_paths": wp, "ans": ans, "raw": raw,
                                  "has_raw": wp && names.len() <= 8}));
            };
            call(0, -1, false, true);
            call(0, -1, true, true);
            call(0, -1, false, false);
            // one shortest path to one target: the combination a point-to-point search is written for
            if grid == 0 && names.len() <= 8 {
                for &t in &names {
                    call(t, -1, true, true);
                }
            }
            if grid >= 1 {
                // distances for the cutoff grid come from the library's own unrestricted answer
                let dists: Vec<f64> = dijkstra::single_source(g, weighted, s, None, None, false, false)
                    .map(|m| m.values().map(|x| x.distance * scale).collect())
                    .unwrap_or_default();
                let cs = cutoffs2(&dists);
                let mut targets = vec![0];
                targets.extend(names.iter().copied());
                for &t in &targets {
                    let mut cgrid = vec![-1i64];
                    cgrid.extend(cs.iter().copied());
                    for c2 in cgrid {
                        for fo in [false, true] {
                            for wp in [false, true] {
                                if t == 0 && c2 == -1 && !(fo && !wp) {
                                    continue; // already asked
                                }
                                if grid == 1 && (c2 + t as i64 + fo as i64).rem_euclid(3) != 0 {
                                    continue; // quick: a third of the grid
                                }
                                call(t, c2, fo, wp);
                            }
                        }
                    }
                }
            }
            ss.push(json!({"s": s, "weighted": weighted, "calls": calls}));
        }
        // all_pairs and multi_source(all nodes)
        let mut variants = vec![(0, -1i64, false, true), (0, -1, true, true), (0, -1, false, false)];
        // with a target the search stops early: every target on small graphs, a few on larger ones
        for &t in names.iter().take(if names.len() <= 6 { 6 } else { 2 }) {
            variants.push((t, -1, false, true));
        }
        // above the parallel threshold: every target, distances only (early exit in every worker)
        if names.len() > 20 {
            for &t in names.iter() {
                variants.push((t, -1, false, false));
            }
        }
        if grid >= 1 {
            variants.push((0, 2, false, true));
            variants.push((0, 3, true, false));
        }
        // above the parallel threshold the same calls are also made inside a pool of two threads, where
        // each worker handles many sources in a row (the global pool gives each worker one or two)
        let pool2 = if names.len() > 20 { rayon::ThreadPoolBuilder::new().num_threads(2).build().ok() } else { None };
        for (t, c2, fo, wp) in variants {
            if let Some(pool) = &pool2 {
                let a = pool.install(|| guarded(|| ap_ans(dijkstra::all_pairs(g, weighted, target_o(t), cutoff_f(c2, scale), fo, wp), scale)));
                ap.push(json!({"weighted": weighted, "target": t, "cutoff": c2, "first_only": fo, "with_paths": wp, "ans": a, "pool": 2}));
            }
            let a = guarded(|| ap_ans(dijkstra::all_pairs(g, weighted, target_o(t), cutoff_f(c2, scale), fo, wp), scale));
            ap.push(json!({"weighted": weighted, "target": t, "cutoff": c2, "first_only": fo, "with_paths": wp, "ans": a}));
            let a = guarded(|| ap_ans(dijkstra::multi_source(g, weighted, names.clone(), target_o(t), cutoff_f(c2, scale), fo, wp), scale));
            ms.push(json!({"weighted": weighted, "sources": names, "target": t, "cutoff": c2, "first_only": fo, "with_paths": wp, "ans": a}));
        }
        // multi_source over proper subsets (first node, last two nodes), over all nodes in reversed order, and over
        // a list that is out of insertion order and names one source twice
        if names.len() >= 2 {
            let reversed: Vec<i32> = names.iter().rev().copied().collect();
            let twice: Vec<i32> = vec![names[names.len() - 1], names[0], names[names.len() - 1]];
            for srcs in [vec![names[0]], names[names.len() - 2..].to_vec(), reversed, twice] {
                let a = guarded(|| ap_ans(dijkstra::multi_source(g, weighted, srcs.clone(), None, None, false, true), scale));
                ms.push(json!({"weighted": weighted, "sources": srcs, "target": 0, "cutoff": -1, "first_only": false, "with_paths": true, "ans": a}));
            }
        }
        if grid >= 1 {
            for &x in &names {
                let a = guarded(|| {
                    let r = dijkstra::get_all_shortest_paths_involving(g, x, weighted);
                    let mut pairs: Vec<(i32, i32)> = r
                        .iter()
                        .filter(|spi| !spi.paths.is_empty())
                        .map(|spi| (spi.paths[0][0], *spi.paths[0].last().unwrap()))
                        .collect();
                    pairs.sort();
                    json!({"e": "", "v": pairs, "n": r.len()})
                });
                inv.push(json!({"x": x, "weighted": weighted, "ans": a}));
            }
        }
    }
    json!({"ss": ss, "ap": ap, "ms": ms, "inv": inv, "adj": adjacency(g)})
}

/// suite "centrality": C05, C06.
pub fn suite_centrality(g: &G) -> Value {
    let mut bc = vec![];
    let mut cc = vec![];
    // above the parallel threshold also inside a pool of two threads (each worker then handles
    // many sources in a row, which is what reused per-worker state needs to show)
    let pool2 = if g.number_of_nodes() > 20 { rayon::ThreadPoolBuilder::new().num_threads(2).build().ok() } else { None };
    let div = wdiv() as f64;
    for weighted in modes(g) {
        // closeness is (r-1) / (sum of distances): real distances are the integer ones divided by div
        let cfac = if weighted { 1.0 / div } else { 1.0 };
        for flag in [false, true] {
            let a = guarded(|| f64_map_ans(betweenness::betweenness_centrality(g, weighted, flag), 1.0));
            bc.push(json!({"weighted": weighted, "normalized": flag, "ans": a}));
            let a = guarded(|| f64_map_ans(closeness::closeness_centrality(g, weighted, flag), cfac));
            cc.push(json!({"weighted": weighted, "wf": flag, "ans": a}));
            if let Some(pool) = &pool2 {
                let a = pool.install(|| guarded(|| f64_map_ans(betweenness::betweenness_centrality(g, weighted, flag), 1.0)));
                bc.push(json!({"weighted": weighted, "normalized": flag, "ans": a, "pool": 2}));
                let a = pool.install(|| guarded(|| f64_map_ans(closeness::closeness_centrality(g, weighted, flag), cfac)));
                cc.push(json!({"weighted": weighted, "wf": flag, "ans": a, "pool": 2}));
            }
        }
    }
    json!({"bc": bc, "cc": cc})
}

/// suite "options_float": C08 on weights that are not exactly representable (tenths).  The exact oracle cannot
/// follow floating-point sums, but "options restrict, never change" can be stated on the library's own answers:
/// for every source, the answer with a cutoff c is the unrestricted answer filtered by distance <= c (every
/// distinct distance and every midpoint is used as c), the entry for a target is the unrestricted entry, and a
/// first_only path is one of the unrestricted paths.  Both sides are logged (distances as bit patterns) and
/// compared by the monitor.
pub fn suite_options_float(g: &G) -> Value {
    let names: Vec<i32> = { let mut v: Vec<i32> = g.get_all_node_names().into_iter().copied().collect(); v.sort(); v };
    let mut rows = vec![];
    if !(g.edges_have_weight() && !g.get_all_edges().is_empty()) {
        return json!({"rows": rows});
    }
    let entry = |t: i32, spi: &ShortestPathInfo<i32>| -> Value {
        let mut p = spi.paths.clone();
        p.sort();
        json!([t, format!("{:016x}", spi.distance.to_bits()), p])
    };
    for &s in &names {
        let full = match dijkstra::single_source(g, true, s, None, None, false, true) { Ok(m) => m, Err(_) => continue };
        let mut ds: Vec<f64> = full.values().map(|x| x.distance).collect();
        ds.sort_by(|a, b| a.partial_cmp(b).unwrap());
        ds.dedup();
        let mut cuts: Vec<f64> = ds.clone();
        for w in ds.windows(2) { cuts.push((w[0] + w[1]) / 2.0); }
        for c in cuts {
            for (fo, wp) in [(false, true), (true, true), (false, false)] {
                let got = guarded(|| match dijkstra::single_source(g, true, s, None, Some(c), fo, wp) {
                    Ok(m) => { let mut v: Vec<(i32, String)> = m.iter().map(|(t, x)| (*t, format!("{:016x}", x.distance.to_bits()))).collect(); v.sort(); json!({"e": "", "v": v}) }
                    Err(e) => json!({"e": kind_name(&e.kind), "v": []}),
                });
                let mut want: Vec<(i32, String)> = full.iter().filter(|(_, x)| x.distance <= c).map(|(t, x)| (*t, format!("{:016x}", x.distance.to_bits()))).collect();
                want.sort();
                rows.push(json!({"kind": "cutoff", "s": s, "c": format!("{}", c), "first_only": fo, "with_paths": wp, "got": got, "want": {"e": "", "v": want}}));
            }
        }
        for &t in &names {
            let got = guarded(|| match dijkstra::single_source(g, true, s, Some(t), None, false, true) {
                Ok(m) => json!({"e": "", "v": m.get(&t).map(|x| vec![entry(t, x)]).unwrap_or_default()}),
                Err(e) => json!({"e": kind_name(&e.kind), "v": []}),
            });
            let want = json!({"e": "", "v": full.get(&t).map(|x| vec![entry(t, x)]).unwrap_or_default()});
            rows.push(json!({"kind": "target", "s": s, "c": format!("{}", t), "first_only": false, "with_paths": true, "got": got, "want": want}));
        }
    }
    json!({"rows": rows})
}

/// suite "centrality_big": graphs whose shortest-path counts exceed anything the exact oracle can hold (2^64
/// and more).  Only what can be judged without the oracle: one finite non-negative entry per node, and the
/// identity  sum of (raw, hop-count) betweenness = sum over connected ordered pairs of (distance - 1), halved
/// when undirected - every shortest s-t path has distance - 1 interior nodes.  Distances come from a
/// breadth-first search over get_all_edges() done here.
pub fn suite_centrality_big(g: &G) -> Value {
    let names: Vec<i32> = g.get_all_node_names().into_iter().copied().collect();
    let n = names.len();
    let idx: HashMap<i32, usize> = names.iter().enumerate().map(|(i, k)| (*k, i)).collect();
    let mut adj: Vec<Vec<usize>> = vec![vec![]; n];
    for e in g.get_all_edges() {
        if e.u == e.v { continue; }
        adj[idx[&e.u]].push(idx[&e.v]);
        if !g.specs.directed { adj[idx[&e.v]].push(idx[&e.u]); }
    }
    let mut expected = 0.0f64;
    for s in 0..n {
        let mut d = vec![usize::MAX; n];
        d[s] = 0;
        let mut q = std::collections::VecDeque::from([s]);
        while let Some(v) = q.pop_front() {
            for &w in &adj[v] {
                if d[w] == usize::MAX { d[w] = d[v] + 1; q.push_back(w); }
            }
        }
        for t in 0..n {
            if t != s && d[t] != usize::MAX { expected += (d[t] - 1) as f64; }
        }
    }
    if !g.specs.directed { expected /= 2.0; }
    let mut calls = vec![];
    for normalized in [false, true] {
        let r = guarded(|| match betweenness::betweenness_centrality(g, false, normalized) {
            Ok(m) => {
                let entries_ok = m.len() == n && names.iter().all(|k| m.contains_key(k));
                let finite = m.values().all(|v| v.is_finite());
                let nonneg = m.values().all(|v| *v >= 0.0);
                let mut sum: f64 = m.values().sum();
                if normalized && n > 2 {
                    // undo the library's normalisation: raw directed sum
                    sum *= ((n - 1) * (n - 2)) as f64;
                    if !g.specs.directed { sum /= 2.0; }
                }
                let rel = (sum - expected).abs() / expected.max(1.0);
                json!({"e": "", "entries_ok": entries_ok, "finite": finite, "nonneg": nonneg,
                       "rel_err_e9": if rel.is_finite() { (rel * 1.0e9).round().min(2.0e9) as i64 } else { 2_000_000_000i64 }})
            }
            Err(e) => json!({"e": kind_name(&e.kind), "entries_ok": false, "finite": false, "nonneg": false, "rel_err_e9": 0}),
        });
        let mut c = json!({"normalized": normalized, "e": r["e"], "entries_ok": r.get("entries_ok").cloned().unwrap_or(json!(false)),
            "finite": r.get("finite").cloned().unwrap_or(json!(false)), "nonneg": r.get("nonneg").cloned().unwrap_or(json!(false)),
            "rel_err_e9": r.get("rel_err_e9").cloned().unwrap_or(json!(0)), "panic": r.get("panic").cloned().unwrap_or(json!(""))});
        c["n"] = json!(n);
        calls.push(c);
    }
    json!({"big": calls})
}

/// suite "weighted": the weighted answers used by C03 (distances from every node,
/// betweenness and closeness), to be compared with the specification evaluated on
/// the logged get_all_edges() alone.
pub fn suite_weighted(g: &G) -> Value {
    let names: Vec<i32> = g.get_all_node_names().into_iter().copied().collect();
    let mut ss = vec![];
    let mut bc = vec![];
    let mut cc = vec![];
    let div = wdiv() as f64;
    if g.edges_have_weight() && !g.get_all_edges().is_empty() {
        for &s in &names {
            let ans = guarded(|| ss_ans(dijkstra::single_source(g, true, s, None, None, false, true), div));
            ss.push(json!({"s": s, "weighted": true, "calls": [{"target": 0, "cutoff": -1, "first_only": false, "with_paths": true, "ans": ans}]}));
        }
        let a = guarded(|| f64_map_ans(betweenness::betweenness_centrality(g, true, false), 1.0));
        bc.push(json!({"weighted": true, "normalized": false, "ans": a}));
        let a = guarded(|| f64_map_ans(closeness::closeness_centrality(g, true, false), 1.0 / div));
        cc.push(json!({"weighted": true, "wf": false, "ans": a}));
    }
    json!({"ss": ss, "ap": [], "ms": [], "inv": [], "bc": bc, "cc": cc})
}

/// Runs `suite` on every case of `input` (ndjson: {"specs":.., "ops":[..]}) and writes one event per case.
pub fn observe<W: Write>(em: &mut Emitter<W>, suite: &str, grid: u8, case: &Value, pool: &mut crate::watchdog::Pool) {
    let specs = SpecsJ::from_json(&case["specs"]);
    let ops: Vec<Op> = case["ops"].as_array().unwrap().iter().map(Op::from_json).collect();
    set_wdiv(case["wdiv"].as_i64().unwrap_or(1));
    observe_case(em, suite, grid, case, pool, specs, &ops);
    set_wdiv(1);
}

fn observe_case<W: Write>(em: &mut Emitter<W>, suite: &str, grid: u8, case: &Value, pool: &mut crate::watchdog::Pool, specs: SpecsJ, ops: &[Op]) {
    let built = catch_unwind(AssertUnwindSafe(|| build(specs, ops)));
    let g = match built {
        Ok(g) => g,
        Err(p) => {
            em.emit(json!({"parent": 0, "op": {"k": "algo", "suite": suite}, "res": "Panic", "panic": panic_msg(p),
                "post": crate::mutgen::no_post(specs), "case": case, "a": {}}));
            return;
        }
    };
    // the big-count suite is judged without the graph (hundreds of nodes): it is not projected into the trace
    let post = if suite == "centrality_big" { crate::mutgen::no_post(specs) } else { project(&g) };
    let mut rng = <rand_chacha::ChaCha8Rng as rand::SeedableRng>::seed_from_u64(em.next_id);
    let big = grid >= 2;
    let a = match suite {
        "paths" => suite_paths(&g, grid),
        "centrality" => suite_centrality(&g),
        "centrality_big" => suite_centrality_big(&g),
        "options_float" => suite_options_float(&g),
        "weighted" => suite_weighted(&g),
        "eigen" => crate::algo2::suite_eigen(&g),
        "api" => {
            let mut a = crate::api::suite_api(&g);
            // louvain under the watchdog
            let mut outs: std::collections::BTreeSet<String> = Default::default();
            for c in crate::api::louvain_api_calls() {
                let r = pool.call(&json!({"case": case, "call": {"kind": "louvain", "args": c}}), std::time::Duration::from_secs(10));
                if r["e"] != "NotRun" {
                    outs.insert(crate::api::res_string_of_louvain(&r));
                }
            }
            a["calls"].as_array_mut().unwrap().push(json!({"f": "louvain_partitions", "shape": "none", "outs": outs.iter().collect::<Vec<_>>(), "panic": ""}));
            a
        }
        "components" => crate::algo2::suite_components(&g, if big { 50 } else { 5 }),
        "cluster" => crate::algo2::suite_cluster(&g, &mut rng, if big { 31 } else { 15 }),
        "partitions" => crate::algo2::suite_partitions(&g, &mut rng, if big { 5000 } else { 600 }),
        "louvain" => {
            // every call in a child process with a deadline: non-termination is data
            let calls = crate::algo2::louvain_calls(&g, if big { 12 } else { 6 }, true);
            let runs: Vec<Value> = calls
                .into_iter()
                .map(|c| {
                    let r = pool.call(&json!({"case": case, "call": {"kind": "louvain", "args": c}}), std::time::Duration::from_secs(10));
                    let (ans, comm) = if r.get("ans").is_some() { (r["ans"].clone(), r["comm"].clone()) } else { (r.clone(), json!({"e": "skipped", "v": []})) };
                    let order = crate::algo2::louvain_visit_order(&g, c["seed"].as_u64().unwrap_or(0));
                    json!({"weighted": c["weighted"], "res": c["res"], "threshold_e7": c["threshold_e7"], "seed": c["seed"], "order": order, "ans": ans, "comm": comm})
                })
                .collect();
            json!({"runs": runs})
        }
        _ => panic!("unknown suite {}", suite),
    };
    em.emit(json!({"parent": 0, "op": {"k": "algo", "suite": suite}, "res": "Ok", "post": post, "case": case, "a": a}));
}
