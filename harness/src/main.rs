mod algo;
mod api;
mod repro;
mod gml;
mod par;
mod gens;
mod algo2;
mod watchdog;
mod cases;
mod model;
mod mutgen;
mod query;
mod rat;
mod walks;

use model::*;
use rand::SeedableRng;
use rand_chacha::ChaCha8Rng;
use std::collections::HashMap;
use std::io::BufWriter;

fn args_map() -> (String, HashMap<String, String>) {
    let a: Vec<String> = std::env::args().collect();
    let cmd = a.get(1).cloned().unwrap_or_default();
    let mut m = HashMap::new();
    let mut i = 2;
    while i < a.len() {
        if let Some(k) = a[i].strip_prefix("--") {
            let v = a.get(i + 1).cloned().unwrap_or_default();
            m.insert(k.to_string(), v);
            i += 2;
        } else {
            i += 1;
        }
    }
    (cmd, m)
}

fn geti(m: &HashMap<String, String>, k: &str, d: i64) -> i64 {
    m.get(k).map(|s| s.parse().unwrap()).unwrap_or(d)
}

fn main() {
    // panics inside the library under test are data: keep stderr quiet
    // (set GV_PANIC_TRACE=1 to see them, e.g. to debug the harness itself)
    if std::env::var("GV_PANIC_TRACE").is_err() {
        std::panic::set_hook(Box::new(|_| {}));
    }
    let (cmd, m) = args_map();
    match cmd.as_str() {
        "mut" => cmd_mut(&m),
        "observe" => cmd_observe(&m),
        "worker" => cmd_worker(),
        "par" => {
            let file = std::fs::File::create(m.get("out").expect("--out")).expect("create out");
            let mut em = mutgen::Emitter::new(BufWriter::new(file));
            par::par_events(&mut em, geti(&m, "thorough", 0) == 1, geti(&m, "seed", 0) as u64);
            println!("{{\"events\":{}}}", em.next_id - 1);
        }
        "gml-rt" => {
            let file = std::fs::File::create(m.get("out").expect("--out")).expect("create out");
            let mut em = mutgen::Emitter::new(BufWriter::new(file));
            gml::roundtrip_events(&mut em, geti(&m, "n", 1000) as usize, geti(&m, "seed", 0) as u64, m.get("scratch").expect("--scratch"));
            println!("{{\"events\":{}}}", em.next_id - 1);
        }
        "gml-docs" => {
            let file = std::fs::File::create(m.get("out").expect("--out")).expect("create out");
            let mut em = mutgen::Emitter::new(BufWriter::new(file));
            let mut pool = watchdog::Pool::with_hang_budget(5);
            gml::doc_events(&mut em, m.get("in").expect("--in"), &mut pool);
            println!("{{\"events\":{},\"child_calls\":{},\"hangs\":{},\"aborts\":{}}}", em.next_id - 1, pool.calls, pool.hangs, pool.aborts);
        }
        "gml-corrupt" => {
            let file = std::fs::File::create(m.get("out").expect("--out")).expect("create out");
            let mut em = mutgen::Emitter::new(BufWriter::new(file));
            let mut pool = watchdog::Pool::with_hang_budget(5);
            gml::corruption_events(&mut em, geti(&m, "n", 20) as usize, geti(&m, "stride", 3) as usize, geti(&m, "seed", 0) as u64, &mut pool);
            println!("{{\"events\":{},\"child_calls\":{},\"hangs\":{},\"aborts\":{}}}", em.next_id - 1, pool.calls, pool.hangs, pool.aborts);
        }
        "values" => {
            let file = std::fs::File::create(m.get("out").expect("--out")).expect("create out");
            let mut em = mutgen::Emitter::new(BufWriter::new(file));
            gens::value_events(&mut em);
            println!("{{\"events\":{}}}", em.next_id - 1);
        }
        "repro" => {
            let file = std::fs::File::create(m.get("out").expect("--out")).expect("create out");
            let mut em = mutgen::Emitter::new(BufWriter::new(file));
            repro::repro_events(&mut em, geti(&m, "thorough", 0) == 1, geti(&m, "seed", 0) as u64);
            println!("{{\"events\":{}}}", em.next_id - 1);
        }
        "gens" => {
            let file = std::fs::File::create(m.get("out").expect("--out")).expect("create out");
            let mut em = mutgen::Emitter::new(BufWriter::new(file));
            gens::gnp_events(&mut em, geti(&m, "nmax", 40) as i32, geti(&m, "seeds", 400) as u64, geti(&m, "thorough", 0) == 1, geti(&m, "seed", 0) as u64);
            println!("{{\"events\":{}}}", em.next_id - 1);
        }
        "gen-cases" => cmd_gen_cases(&m),
        "replay-mut" => cmd_replay_mut(&m),
        "replay-walks" => println!("{}", walks::replay_walks(m.get("in").expect("--in"), m.get("out").expect("--out"))),
        _ => {
            eprintln!("usage: gv <mut> --key value ...");
            std::process::exit(2);
        }
    }
}

/// gv mut --out F --from A --to B --ex K:DEPTH:QDEPTH[,..] --random N --rk K2 --rlen L --rq NQ --snap 0|1 --seed S
/// QDEPTH -1: no query events; NQ: query points per random history (0: none, the final state is then not queried either)
fn cmd_mut(m: &HashMap<String, String>) {
    let out = m.get("out").expect("--out");
    let all = SpecsJ::all();
    let from = geti(m, "from", 0) as usize;
    let to = geti(m, "to", all.len() as i64) as usize;
    let ex: Vec<(i32, usize, i32)> = m
        .get("ex")
        .map(|s| s.as_str())
        .unwrap_or("")
        .split(',')
        .filter(|x| !x.is_empty())
        .map(|x| {
            let p: Vec<i64> = x.split(':').map(|y| y.parse().unwrap()).collect();
            (p[0] as i32, p[1] as usize, p[2] as i32)
        })
        .collect();
    let nrandom = geti(m, "random", 0) as usize;
    let rk = geti(m, "rk", 5) as i32;
    let rlen = geti(m, "rlen", 12) as usize;
    let rq = geti(m, "rq", 0) as usize;
    let with_snap = geti(m, "snap", 1) == 1;
    let derive = geti(m, "derive", 0) == 1;
    let seed = geti(m, "seed", 0) as u64;
    let file = std::fs::File::create(out).expect("create out");
    let mut em = mutgen::Emitter::new(BufWriter::new(file));
    for (i, specs) in all.iter().enumerate().take(to).skip(from) {
        let mut rng = ChaCha8Rng::seed_from_u64(seed.wrapping_mul(1000).wrapping_add(i as u64));
        for (k, depth, qdepth) in &ex {
            let mut cx = mutgen::Ctx { derive, em: &mut em, specs: *specs, universe: (1..=*k + 1).collect(), with_snap };
            if derive {
                mutgen::exhaustive_derive(&mut cx, *k, *depth, *qdepth);
            } else {
                mutgen::exhaustive(&mut cx, *k, *depth, *qdepth);
            }
        }
        let mut cx = mutgen::Ctx { derive, em: &mut em, specs: *specs, universe: (1..=rk + 1).collect(), with_snap };
        mutgen::random_histories(&mut cx, &mut rng, nrandom, rk, rlen, rq);
        // a second family over a wider name universe (graphs with 5-8 nodes; small requests to the derive functions)
        let (n2, rk2, rlen2) = (geti(m, "random2", 0) as usize, geti(m, "rk2", 7) as i32, geti(m, "rlen2", 16) as usize);
        if n2 > 0 {
            let mut cx = mutgen::Ctx { derive, em: &mut em, specs: *specs, universe: (1..=rk2 + 1).collect(), with_snap };
            mutgen::random_histories(&mut cx, &mut rng, n2, rk2, rlen2, rq);
        }
    }
    let counts: Vec<String> = em.counts.iter().map(|(k, v)| format!("\"{}\":{}", k, v)).collect();
    println!("{{\"events\":{},\"counts\":{{{}}}}}", em.next_id - 1, counts.join(","));
}

/// gv replay-mut --in F --out T : re-executes the operation chain of a replay file and records it again
fn cmd_replay_mut(m: &HashMap<String, String>) {
    let r: serde_json::Value = serde_json::from_str(&std::fs::read_to_string(m.get("in").expect("--in")).unwrap()).unwrap();
    let file = std::fs::File::create(m.get("out").expect("--out")).expect("create out");
    let mut em = mutgen::Emitter::new(BufWriter::new(file));
    let ops = r["ops"].as_array().unwrap();
    let specs = if ops[0]["k"] == "new_from" { SpecsJ::from_json(&ops[0]["specs"]) } else { SpecsJ::from_json(&r["specs"]) };
    let derive = false;
    let mut cx = mutgen::Ctx { derive, em: &mut em, specs, universe: (1..=6).collect(), with_snap: true };
    let mut path: Vec<Op> = vec![];
    let mut parent;
    if ops[0]["k"] == "new_from" {
        let o = Op::from_json(&serde_json::json!({"k": "add_edges", "ns": [], "es": ops[0]["es"]}));
        let n = Op::from_json(&serde_json::json!({"k": "add_nodes", "ns": ops[0]["ns"], "es": []}));
        let (ns, es) = match (&n, &o) {
            (Op::AddNodes(ns), Op::AddEdges(es)) => (ns.clone(), es.clone()),
            _ => unreachable!(),
        };
        let (id, res) = mutgen::new_from(&mut cx, &ns, &es);
        parent = id;
        if res != "Ok" {
            return;
        }
        path.push(n);
        path.push(o);
    } else {
        parent = cx.root();
    }
    for o in ops.iter().skip(1) {
        if o["k"] == "query" {
            cx.query(parent, &path);
            continue;
        }
        let op = Op::from_json(o);
        let (id, res) = cx.step(parent, &path, &op);
        if res == "Panic" {
            return;
        }
        path.push(op);
        parent = id;
    }
    cx.query(parent, &path);
}

/// gv observe --suite S --grid G --in cases.ndjson --out obs.ndjson
fn cmd_observe(m: &HashMap<String, String>) {
    use std::io::BufRead;
    let suite = m.get("suite").expect("--suite");
    let grid = geti(m, "grid", 0) as u8;
    let f = std::io::BufReader::new(std::fs::File::open(m.get("in").expect("--in")).expect("open cases"));
    let file = std::fs::File::create(m.get("out").expect("--out")).expect("create out");
    let mut em = mutgen::Emitter::new(BufWriter::new(file));
    let mut pool = watchdog::Pool::with_hang_budget(5);
    for line in f.lines() {
        let line = line.unwrap();
        if line.trim().is_empty() {
            continue;
        }
        let case: serde_json::Value = serde_json::from_str(&line).expect("case json");
        algo::observe(&mut em, suite, grid, &case, &mut pool);
    }
    println!("{{\"events\":{},\"child_calls\":{},\"hangs\":{},\"aborts\":{}}}", em.next_id - 1, pool.calls, pool.hangs, pool.aborts);
}

/// gv worker: executes one request per stdin line in this (expendable) process
fn cmd_worker() {
    // a worker whose parent has gone (killed check, expired deadline) must not go on spinning in a
    // call that never returns: leave as soon as the process has been re-parented
    let parent = std::os::unix::process::parent_id();
    std::thread::spawn(move || loop {
        std::thread::sleep(std::time::Duration::from_millis(500));
        if std::os::unix::process::parent_id() != parent {
            std::process::exit(3);
        }
    });
    use std::io::{BufRead, Write};
    let stdin = std::io::stdin();
    let stdout = std::io::stdout();
    for line in stdin.lock().lines() {
        let line = match line { Ok(l) => l, Err(_) => break };
        let req: serde_json::Value = match serde_json::from_str(&line) { Ok(v) => v, Err(_) => continue };
        let out = algo::guarded(|| {
            if req["call"]["kind"] == "gnp" {
                let c = &req["call"];
                let p = c["p"][0].as_i64().unwrap() as f64 / c["p"][1].as_i64().unwrap() as f64;
                return match graphrs::generators::random::fast_gnp_random_graph(c["n"].as_i64().unwrap() as i32, p, c["directed"].as_bool().unwrap(), Some(c["seed"].as_u64().unwrap())) {
                    Ok(g) => {
                        let names: Vec<i32> = g.get_all_node_names().into_iter().copied().collect();
                        let mut es: Vec<(i32, i32)> = g.get_all_edges().iter().map(|e| (e.u, e.v)).collect();
                        es.sort();
                        serde_json::json!({"nodes": names, "edges": es})
                    }
                    Err(e) => serde_json::json!({"err": kind_name(&e.kind)}),
                };
            }
            if req["call"]["kind"] == "graphml_read" {
                return gml::read_call(req["call"]["doc"].as_str().unwrap(), SpecsJ::from_json(&req["call"]["specs"]));
            }
            let case = &req["case"];
            let specs = SpecsJ::from_json(&case["specs"]);
            let ops: Vec<Op> = case["ops"].as_array().unwrap().iter().map(Op::from_json).collect();
            model::set_wdiv(case["wdiv"].as_i64().unwrap_or(1));
            let g = build(specs, &ops);
            match req["call"]["kind"].as_str().unwrap() {
                "louvain" => algo2::louvain_call(&g, &req["call"]["args"]),
                "louvain_repeat" => repro::louvain_repeat(&g, specs, &ops, &req["call"]["args"]),
                k => serde_json::json!({"e": "UnknownCall", "v": [], "kind": k}),
            }
        });
        let mut o = stdout.lock();
        writeln!(o, "{}", out).unwrap();
        o.flush().unwrap();
    }
}

/// gv gen-cases --kind random|dups --n N --minn A --maxn B --seed S --out F [--zero 1]
fn cmd_gen_cases(m: &HashMap<String, String>) {
    use rand::Rng;
    use std::io::Write;
    let kind = m.get("kind").map(|s| s.as_str()).unwrap_or("random");
    let n = geti(m, "n", 100) as usize;
    let minn = geti(m, "minn", 2) as i32;
    let maxn = geti(m, "maxn", 6) as i32;
    let zero = geti(m, "zero", 0) == 1;
    let cubes = geti(m, "cubes", 0) == 1;
    let mut rng = ChaCha8Rng::seed_from_u64(geti(m, "seed", 0) as u64);
    let mut out = BufWriter::new(std::fs::File::create(m.get("out").expect("--out")).expect("create out"));
    let kinds = SpecsJ::kinds();
    let all = SpecsJ::all();
    if kind == "forest" {
        for case in cases::forest_cases(&mut rng, n, minn, maxn) {
            writeln!(out, "{}", case).unwrap();
        }
        return;
    }
    if kind == "halves" {
        // weighted graphs whose real weights are multiples of 1/2 (wdiv = 2) or 1/4 (wdiv = 4): weights
        // below 1, and weight sums that equal the edge count although not every weight is 1
        for i in 0..n {
            let specs = kinds[i % kinds.len()];
            let nn = rng.gen_range(minn..=maxn);
            let p = [0.3, 0.5, 0.8][rng.gen_range(0..3)];
            // the last form scales every weight by 2^-40 (exact): whole path lengths stay below 1e-9, which an
            // absolute tolerance in a distance comparison would merge
            let (weights, d): (Vec<i64>, i64) = if cubes {
                // perfect cubes over a power of two: every real weight is below 1, the ratios to the largest weight are unchanged
                match i % 3 { 0 => (vec![1, 8, 27], 32), 1 => (vec![1, 1, 8], 64), _ => (vec![1, 8, 27], 1 << 40) }
            } else {
                match i % 4 { 0 => (vec![1, 3], 2), 1 => (vec![1, 2, 3, 5], 2), 2 => (vec![1, 3, 4, 7], 4), _ => (vec![1, 2, 3, 5], 1 << 40) }
            };
            let mut case = cases::case_json(specs, &cases::random_graph(&mut rng, specs, nn, p, &weights), "halves");
            case["wdiv"] = serde_json::json!(d);
            writeln!(out, "{}", case).unwrap();
        }
        return;
    }
    if kind == "nearties" {
        // weights 2^25 + d (d = 0..2) next to weight 1, over 2 or 2^40: exact in f64, but routes differ by less than
        // single precision resolves (the three big weights are one f32), so a narrowed heap key or distance merges
        // them.  Paths!INF is 10^8, so at most two big weights may lie on a route: callers pass minn = maxn = 3.
        for i in 0..n {
            let specs = kinds[i % kinds.len()];
            let nn = rng.gen_range(minn..=maxn).min(3);
            let p = [0.5, 0.7, 0.9][rng.gen_range(0..3)];
            let b: i64 = 1 << 25;
            let weights = vec![1, 1, b, b + 1, b + 2];
            let mut case = cases::case_json(specs, &cases::random_graph(&mut rng, specs, nn, p, &weights), "nearties");
            case["wdiv"] = serde_json::json!(if i % 2 == 0 { 2i64 } else { 1i64 << 40 });
            writeln!(out, "{}", case).unwrap();
        }
        return;
    }
    if kind == "patterned" {
        // weights that follow a pattern a shortcut could mistake for "no weights": a function of the source
        // node, of the target node, one constant other than 1, all 1 except one heavy edge
        for i in 0..n {
            let specs = kinds[i % kinds.len()];
            let nn = rng.gen_range(minn..=maxn);
            let p = [0.25, 0.4, 0.6][rng.gen_range(0..3)];
            let mut ops = cases::random_graph(&mut rng, specs, nn, p, &[1]);
            let f: Vec<i64> = (0..=nn).map(|_| rng.gen_range(1..=4)).collect();
            let k = rng.gen_range(2..=3);
            let mode = (i / kinds.len()) % 4;
            for op in ops.iter_mut() {
                if let model::Op::AddEdges(es) = op {
                    let heavy = if es.is_empty() { 0 } else { rng.gen_range(0..es.len()) };
                    for (j, e) in es.iter_mut().enumerate() {
                        e.2 = match mode {
                            0 => f[e.0 as usize],
                            1 => f[e.1 as usize],
                            2 => k,
                            _ => if j == heavy { 5 } else { 1 },
                        };
                    }
                }
            }
            writeln!(out, "{}", cases::case_json(specs, &ops, "patterned")).unwrap();
        }
        return;
    }
    if kind == "tenths" {
        // weights that are multiples of 1/10: sums round, so only relations between the library's own answers are judged
        for i in 0..n {
            let specs = kinds[i % kinds.len()];
            let nn = rng.gen_range(minn..=maxn);
            let p = [0.3, 0.5, 0.8][rng.gen_range(0..3)];
            let mut case = cases::case_json(specs, &cases::random_graph(&mut rng, specs, nn, p, &[1, 2, 3, 5, 6, 7, 11]), "tenths");
            case["wdiv"] = serde_json::json!(10);
            writeln!(out, "{}", case).unwrap();
        }
        return;
    }
    if kind == "large" {
        for case in cases::large_cases(&mut rng) {
            writeln!(out, "{}", case).unwrap();
        }
        return;
    }
    if kind == "bigcount" {
        for case in cases::bigcount_cases() {
            writeln!(out, "{}", case).unwrap();
        }
        return;
    }
    if kind == "shapes" {
        for case in cases::shape_cases(&mut rng, n) {
            writeln!(out, "{}", case).unwrap();
        }
        return;
    }
    if kind == "brooms" {
        for case in cases::broom_cases(&mut rng, n, minn, maxn) {
            writeln!(out, "{}", case).unwrap();
        }
        return;
    }
    if kind == "structured" {
        for case in cases::structured_cases(&mut rng, n) {
            writeln!(out, "{}", case).unwrap();
        }
        return;
    }
    for i in 0..n {
        let case = match kind {
            "dups" => {
                let specs = all[rng.gen_range(0..all.len())];
                let specs = SpecsJ { missing: 0, ..specs };
                let k = rng.gen_range(2..=maxn);
                let len = rng.gen_range(3..=14);
                cases::case_json(specs, &cases::random_dup_history(&mut rng, k, len), "dups")
            }
            "hubdups" => {
                let specs = all[rng.gen_range(0..all.len())];
                let specs = SpecsJ { missing: 0, ..specs };
                let k = rng.gen_range(10..=12);
                cases::case_json(specs, &cases::hub_dup_history(&mut rng, k), "hubdups")
            }
            _ => {
                let specs = kinds[i % kinds.len()];
                let nn = rng.gen_range(minn..=maxn);
                let p = [0.15, 0.3, 0.5, 0.8][rng.gen_range(0..4)];
                let weights: Vec<i64> = match rng.gen_range(0..3) {
                    0 => vec![],
                    1 => if cubes { vec![1, 8, 27] } else { vec![1, 2, 3] },
                    _ => if cubes { vec![1, 1, 8] } else if zero { vec![0, 1, 2] } else { vec![1, 1, 2, 4] },
                };
                cases::case_json(specs, &cases::random_graph(&mut rng, specs, nn, p, &weights), "random")
            }
        };
        writeln!(out, "{}", case).unwrap();
    }
}
