mod model;
mod mutgen;
mod query;
mod rat;
mod walks;

use model::*;
use rand::SeedableRng;
use rand_chacha::ChaCha8Rng;
use std::collections::HashMap;
use std::io::BufWriter;

fn args_map() -> (String, HashMap<String, String>) {
    let a: Vec<String> = std::env::args().collect();
    let cmd = a.get(1).cloned().unwrap_or_default();
    let mut m = HashMap::new();
    let mut i = 2;
    while i < a.len() {
        if let Some(k) = a[i].strip_prefix("--") {
            let v = a.get(i + 1).cloned().unwrap_or_default();
            m.insert(k.to_string(), v);
            i += 2;
        } else {
            i += 1;
        }
    }
    (cmd, m)
}

fn geti(m: &HashMap<String, String>, k: &str, d: i64) -> i64 {
    m.get(k).map(|s| s.parse().unwrap()).unwrap_or(d)
}

fn main() {
    // panics inside the library under test are data: keep stderr quiet
    std::panic::set_hook(Box::new(|_| {}));
    let (cmd, m) = args_map();
    match cmd.as_str() {
        "mut" => cmd_mut(&m),
        "replay-mut" => cmd_replay_mut(&m),
        "replay-walks" => println!("{}", walks::replay_walks(m.get("in").expect("--in"), m.get("out").expect("--out"))),
        _ => {
            eprintln!("usage: gv <mut> --key value ...");
            std::process::exit(2);
        }
    }
}

/// gv mut --out F --from A --to B --ex K:DEPTH:QDEPTH[,..] --random N --rk K2 --rlen L --rq NQ --snap 0|1 --seed S
/// QDEPTH -1: no query events; NQ: query points per random history (0: none, the final state is then not queried either)
fn cmd_mut(m: &HashMap<String, String>) {
    let out = m.get("out").expect("--out");
    let all = SpecsJ::all();
    let from = geti(m, "from", 0) as usize;
    let to = geti(m, "to", all.len() as i64) as usize;
    let ex: Vec<(i32, usize, i32)> = m
        .get("ex")
        .map(|s| s.as_str())
        .unwrap_or("")
        .split(',')
        .filter(|x| !x.is_empty())
        .map(|x| {
            let p: Vec<i64> = x.split(':').map(|y| y.parse().unwrap()).collect();
            (p[0] as i32, p[1] as usize, p[2] as i32)
        })
        .collect();
    let nrandom = geti(m, "random", 0) as usize;
    let rk = geti(m, "rk", 5) as i32;
    let rlen = geti(m, "rlen", 12) as usize;
    let rq = geti(m, "rq", 0) as usize;
    let with_snap = geti(m, "snap", 1) == 1;
    let seed = geti(m, "seed", 0) as u64;
    let file = std::fs::File::create(out).expect("create out");
    let mut em = mutgen::Emitter::new(BufWriter::new(file));
    for (i, specs) in all.iter().enumerate().take(to).skip(from) {
        let mut rng = ChaCha8Rng::seed_from_u64(seed.wrapping_mul(1000).wrapping_add(i as u64));
        for (k, depth, qdepth) in &ex {
            let mut cx = mutgen::Ctx { em: &mut em, specs: *specs, universe: (1..=*k + 1).collect(), with_snap };
            mutgen::exhaustive(&mut cx, *k, *depth, *qdepth);
        }
        let mut cx = mutgen::Ctx { em: &mut em, specs: *specs, universe: (1..=rk + 1).collect(), with_snap };
        mutgen::random_histories(&mut cx, &mut rng, nrandom, rk, rlen, rq);
    }
    let counts: Vec<String> = em.counts.iter().map(|(k, v)| format!("\"{}\":{}", k, v)).collect();
    println!("{{\"events\":{},\"counts\":{{{}}}}}", em.next_id - 1, counts.join(","));
}

/// gv replay-mut --in F --out T : re-executes the operation chain of a replay file and records it again
fn cmd_replay_mut(m: &HashMap<String, String>) {
    let r: serde_json::Value = serde_json::from_str(&std::fs::read_to_string(m.get("in").expect("--in")).unwrap()).unwrap();
    let file = std::fs::File::create(m.get("out").expect("--out")).expect("create out");
    let mut em = mutgen::Emitter::new(BufWriter::new(file));
    let ops = r["ops"].as_array().unwrap();
    let specs = if ops[0]["k"] == "new_from" { SpecsJ::from_json(&ops[0]["specs"]) } else { SpecsJ::from_json(&r["specs"]) };
    let mut cx = mutgen::Ctx { em: &mut em, specs, universe: (1..=6).collect(), with_snap: true };
    let mut path: Vec<Op> = vec![];
    let mut parent;
    if ops[0]["k"] == "new_from" {
        let o = Op::from_json(&serde_json::json!({"k": "add_edges", "ns": [], "es": ops[0]["es"]}));
        let n = Op::from_json(&serde_json::json!({"k": "add_nodes", "ns": ops[0]["ns"], "es": []}));
        let (ns, es) = match (&n, &o) {
            (Op::AddNodes(ns), Op::AddEdges(es)) => (ns.clone(), es.clone()),
            _ => unreachable!(),
        };
        let (id, res) = mutgen::new_from(&mut cx, &ns, &es);
        parent = id;
        if res != "Ok" {
            return;
        }
        path.push(n);
        path.push(o);
    } else {
        parent = cx.root();
    }
    for o in ops.iter().skip(1) {
        if o["k"] == "query" {
            cx.query(parent, &path);
            continue;
        }
        let op = Op::from_json(o);
        let (id, res) = cx.step(parent, &path, &op);
        if res == "Panic" {
            return;
        }
        path.push(op);
        parent = id;
    }
    cx.query(parent, &path);
}
