//! Suites for components (C10), clustering (C11), partitions / modularity (C12)
//! and Louvain (C13, C17).

use crate::algo::{err_ans, guarded};
use crate::model::*;
use crate::rat::rat;
use graphrs::algorithms::{cluster, community::louvain, community::partitions, components};
use graphrs::Error;
use rand::prelude::*;
use rand_chacha::ChaCha8Rng;
use serde_json::{json, Value};
use std::collections::{HashMap, HashSet};

fn sorted_set(s: &HashSet<i32>) -> Vec<i32> {
    let mut v: Vec<i32> = s.iter().copied().collect();
    v.sort();
    v
}

/// A family of sets in canonical order (sets ascending, family sorted).
pub fn family(f: &[HashSet<i32>]) -> Value {
    let mut v: Vec<Vec<i32>> = f.iter().map(sorted_set).collect();
    v.sort();
    json!(v)
}

fn family_ans(r: Result<Vec<HashSet<i32>>, Error>) -> Value {
    match r {
        Ok(f) => json!({"e": "", "v": family(&f)}),
        Err(e) => err_ans(&e),
    }
}

pub fn suite_components(g: &G, reps: usize) -> Value {
    let names: Vec<i32> = g.get_all_node_names().into_iter().copied().collect();
    let n = names.len();
    let node_cc: Vec<Value> = names
        .iter()
        .map(|&x| {
            json!({"n": x, "ans": guarded(|| match components::node_connected_component(g, &x) {
                Ok(s) => json!({"e": "", "v": sorted_set(&s)}),
                Err(e) => err_ans(&e),
            })})
        })
        .collect();
    let bfs: Vec<Value> = names
        .iter()
        .map(|&x| {
            let v = guarded(|| json!(g.breadth_first_search(&x)));
            json!({"n": x, "v": if v.is_array() { v } else { json!([]) }})
        })
        .collect();
    let parts: Vec<Value> = (1..=n + 1)
        .map(|k| {
            let v = guarded(|| json!({"e": "", "v": components::bfs_equal_size_partitions(g, k)}));
            json!({"k": k, "e": v["e"], "v": v["v"]})
        })
        .collect();
    // the strong-components routine iterates hash sets: repeat it (fresh hash keys per call)
    let scc_runs: Vec<Value> = (0..reps).map(|_| guarded(|| family_ans(components::strongly_connected_components(g)))).collect();
    let wcc_runs: Vec<Value> = (0..reps.min(2)).map(|_| guarded(|| family_ans(components::weakly_connected_components(g)))).collect();
    json!({
        "cc": guarded(|| family_ans(components::connected_components(g))),
        "ncc": guarded(|| match components::number_of_connected_components(g) { Ok(k) => json!({"e": "", "v": k}), Err(e) => json!({"e": kind_name(&e.kind), "v": 0}) }),
        "node_cc": node_cc,
        "wcc_runs": wcc_runs,
        "scc_runs": scc_runs,
        "bfs": bfs,
        "parts": parts,
    })
}

fn scopes(names: &[i32], rng: &mut ChaCha8Rng, max_subsets: usize) -> Vec<(bool, Vec<i32>)> {
    let mut out = vec![(true, vec![])];
    let n = names.len();
    if n == 0 {
        return out;
    }
    if n >= 40 {
        // too many nodes for a bit mask: subsets of very different sizes, including nearly everything
        for k in 0..max_subsets.min(6) {
            let p = [0.05, 0.5, 0.95, 0.99, 0.3, 0.8][k % 6];
            let mut sub: Vec<i32> = names.iter().copied().filter(|_| rng.gen_bool(p)).collect();
            if sub.is_empty() { sub.push(names[0]); }
            out.push((false, sub));
        }
        return out;
    }
    let total = (1usize << n) - 1;
    if total <= max_subsets {
        for m in 1..=total {
            out.push((false, names.iter().enumerate().filter(|(i, _)| m >> i & 1 == 1).map(|(_, x)| *x).collect()));
        }
    } else {
        for _ in 0..max_subsets {
            let m = rng.gen_range(1..=total);
            out.push((false, names.iter().enumerate().filter(|(i, _)| m >> i & 1 == 1).map(|(_, x)| *x).collect()));
        }
    }
    out
}

fn f64map(r: Result<HashMap<i32, f64>, Error>) -> Value {
    match r {
        Ok(m) => {
            let mut v: Vec<(i32, f64)> = m.into_iter().collect();
            v.sort_by_key(|x| x.0);
            json!({"e": "", "v": v.into_iter().map(|(k, x)| json!([k, rat(x)])).collect::<Vec<_>>()})
        }
        Err(e) => err_ans(&e),
    }
}

pub fn suite_cluster(g: &G, rng: &mut ChaCha8Rng, max_subsets: usize) -> Value {
    let names: Vec<i32> = g.get_all_node_names().into_iter().copied().collect();
    let scs = scopes(&names, rng, max_subsets);
    let mut clustering = vec![];
    let mut average = vec![];
    let mut triangles = vec![];
    let mut gendeg = vec![];
    let mut square = vec![];
    for (all, nodes) in &scs {
        let arg: Option<&[i32]> = if *all { None } else { Some(nodes.as_slice()) };
        for weighted in [false, true] {
            clustering.push(json!({"all": all, "nodes": nodes, "weighted": weighted,
                "ans": guarded(|| f64map(cluster::clustering(g, weighted, arg)))}));
            for cz in [false, true] {
                average.push(json!({"all": all, "nodes": nodes, "weighted": weighted, "count_zeros": cz,
                    "ans": guarded(|| match cluster::average_clustering(g, weighted, arg, cz) {
                        Ok(x) => json!({"e": "", "v": rat(x)}),
                        Err(e) => json!({"e": kind_name(&e.kind), "v": [0, 1]}),
                    })}));
            }
        }
        triangles.push(json!({"all": all, "nodes": nodes, "ans": guarded(|| match cluster::triangles(g, arg) {
            Ok(m) => { let mut v: Vec<(i32, usize)> = m.into_iter().collect(); v.sort(); json!({"e": "", "v": v}) }
            Err(e) => err_ans(&e),
        })}));
        gendeg.push(json!({"all": all, "nodes": nodes, "ans": guarded(|| match cluster::generalized_degree(g, arg) {
            Ok(m) => {
                let mut v: Vec<(i32, Vec<(usize, usize)>)> = m.into_iter().map(|(k, h)| { let mut hv: Vec<(usize, usize)> = h.into_iter().collect(); hv.sort(); (k, hv) }).collect();
                v.sort();
                json!({"e": "", "v": v})
            }
            Err(e) => err_ans(&e),
        })}));
        square.push(json!({"all": all, "nodes": nodes, "ans": guarded(|| f64map(Ok(cluster::square_clustering(g, arg))))}));
    }
    json!({
        "clustering": clustering, "average": average, "triangles": triangles, "gendeg": gendeg, "square": square,
        "transitivity": guarded(|| match cluster::transitivity(g) {
            Ok(x) => json!({"e": "", "v": rat(x)}),
            Err(e) => json!({"e": kind_name(&e.kind), "v": [0, 1]}),
        }),
    })
}

/// Families of node sets for C12: all families of <= 3 non-empty subsets of
/// (names + one foreign name) when that is small, else all true partitions of
/// small graphs plus random families; always a few families with repeated sets.
fn families(names: &[i32], rng: &mut ChaCha8Rng, budget: usize) -> Vec<Vec<Vec<i32>>> {
    let mut uni: Vec<i32> = names.to_vec();
    uni.push(99);
    let k = uni.len();
    // all non-empty subsets while that is feasible, else a random sample of them
    let subsets: Vec<Vec<i32>> = if k <= 12 {
        (1..(1usize << k)).map(|m| uni.iter().enumerate().filter(|(i, _)| m >> i & 1 == 1).map(|(_, x)| *x).collect()).collect()
    } else {
        (0..64).map(|_| { let p = rng.gen_range(1..=9) as f64 / 10.0; let mut s: Vec<i32> = uni.iter().copied().filter(|_| rng.gen_bool(p)).collect(); if s.is_empty() { s.push(uni[0]); } s }).collect()
    };
    let mut out: Vec<Vec<Vec<i32>>> = vec![vec![]];
    let ns = subsets.len();
    let total = if k <= 12 { ns + ns * (ns - 1) / 2 + ns * (ns - 1) * (ns - 2) / 6 } else { usize::MAX };
    if total <= budget {
        for a in 0..ns {
            out.push(vec![subsets[a].clone()]);
            for b in a + 1..ns {
                out.push(vec![subsets[a].clone(), subsets[b].clone()]);
                for c in b + 1..ns {
                    out.push(vec![subsets[a].clone(), subsets[b].clone(), subsets[c].clone()]);
                }
            }
        }
    } else {
        // random partitions of the true node set, then random perturbations of them
        for _ in 0..budget / 3 {
            let parts = rng.gen_range(1..=names.len().max(1));
            let mut fam: Vec<Vec<i32>> = vec![vec![]; parts];
            for &x in names {
                fam[rng.gen_range(0..parts)].push(x);
            }
            fam.retain(|s| !s.is_empty());
            out.push(fam.clone());
            // an overlap and an omission that cancel in the size count
            if names.len() >= 3 && fam.len() >= 2 {
                let mut f2 = fam.clone();
                let victim = f2[0][0];
                f2[0].retain(|x| *x != victim);
                let dup = f2[1][0];
                f2[0].push(dup);
                f2.retain(|s| !s.is_empty());
                out.push(f2);
            }
            let mut f3 = fam.clone();
            f3[0].push(99);
            out.push(f3);
        }
        for _ in 0..budget / 3 {
            let cnt = rng.gen_range(1..=4);
            out.push((0..cnt).map(|_| subsets[rng.gen_range(0..ns)].clone()).collect());
        }
    }
    // repeated sets
    if !names.is_empty() {
        out.push(vec![vec![names[0]], vec![names[0]]]);
        out.push(vec![names.to_vec(), names.to_vec()]);
    }
    // empty members: a partition padded with empty sets is still disjoint and covering, also when that makes more
    // members than nodes; a family that misses a node stays a non-partition however it is padded
    let mut padded: Vec<Vec<i32>> = if names.is_empty() { vec![] } else { vec![names.to_vec()] };
    padded.push(vec![]);
    out.push(padded);
    let mut singles: Vec<Vec<i32>> = names.iter().map(|x| vec![*x]).collect();
    singles.insert(singles.len() / 2, vec![]);
    singles.push(vec![]);
    out.push(singles);
    if names.len() >= 2 {
        out.push(vec![vec![], names[1..].to_vec(), vec![], vec![]]);
    }
    out
}

pub const RESOLUTIONS: [(i64, i64); 3] = [(1, 1), (1, 2), (2, 1)];
/// Louvain is also run with a low resolution: it merges further and reaches more aggregation levels.
pub const LOUVAIN_RESOLUTIONS: [(i64, i64); 4] = [(1, 1), (1, 2), (2, 1), (1, 5)];

pub fn suite_partitions(g: &G, rng: &mut ChaCha8Rng, budget: usize) -> Value {
    let names: Vec<i32> = { let mut v: Vec<i32> = g.get_all_node_names().into_iter().copied().collect(); v.sort(); v };
    let weighted_ok = g.edges_have_weight();
    let mut cases = vec![];
    for fam in families(&names, rng, budget) {
        let comms: Vec<HashSet<i32>> = fam.iter().map(|s| s.iter().copied().collect()).collect();
        let isp = guarded(|| json!(partitions::is_partition(g, &comms)));
        let mut mods = vec![];
        let is_p = isp.as_bool().unwrap_or(false);
        for weighted in [false, true] {
            if weighted && !weighted_ok {
                continue;
            }
            for (rn, rd) in RESOLUTIONS {
                // families the library itself rejects: one modularity call is enough to see NotAPartition
                if !is_p && (weighted || (rn, rd) != (1, 1)) {
                    continue;
                }
                let res = if (rn, rd) == (1, 1) && weighted { None } else { Some(rn as f64 / rd as f64) };
                mods.push(json!({"weighted": weighted, "res": [rn, rd], "ans": guarded(|| match partitions::modularity(g, &comms, weighted, res) {
                    Ok(x) => json!({"e": "", "v": rat(x)}),
                    Err(e) => json!({"e": kind_name(&e.kind), "v": [0, 1]}),
                })}));
            }
        }
        let mut famj: Vec<Vec<i32>> = fam.iter().map(|s| { let mut t = s.clone(); t.sort(); t.dedup(); t }).collect();
        famj.sort();
        cases.push(json!({"fam": famj, "is_partition": if isp.is_boolean() { isp } else { json!(false) }, "mods": mods}));
    }
    json!({"cases": cases})
}

fn levels_json(l: &[Vec<HashSet<i32>>]) -> Value {
    Value::Array(l.iter().map(|f| family(f)).collect())
}

/// One Louvain call described by `call`; used directly and by the watchdog worker.
pub fn louvain_call(g: &G, call: &Value) -> Value {
    let weighted = call["weighted"].as_bool().unwrap();
    let res = call["res"][0].as_i64().unwrap() as f64 / call["res"][1].as_i64().unwrap() as f64;
    let resolution = if call["res_default"].as_bool().unwrap_or(false) { None } else { Some(res) };
    let threshold = call["threshold_e7"].as_i64().map(|t| if t < 0 { None } else { Some(t as f64 * 1.0e-7) }).unwrap_or(None);
    let seed = call["seed"].as_i64().map(|s| if s < 0 { None } else { Some(s as u64) }).unwrap_or(None);
    let ans = guarded(|| match louvain::louvain_partitions(g, weighted, resolution, threshold, seed) {
        Ok(l) => json!({"e": "", "v": levels_json(&l)}),
        Err(e) => err_ans(&e),
    });
    let comm = if ans["e"] == "" {
        guarded(|| match louvain::louvain_communities(g, weighted, resolution, threshold, seed) {
            Ok(f) => json!({"e": "", "v": family(&f)}),
            Err(e) => err_ans(&e),
        })
    } else {
        json!({"e": "skipped", "v": []})
    };
    json!({"ans": ans, "comm": comm})
}

/// The order in which the first local-move phase visits the nodes for `seed`: the
/// library shuffles the node ranks (rank = position of the name among the sorted
/// names), listed in insertion order, with StdRng::seed_from_u64(seed).
pub fn louvain_visit_order(g: &G, seed: u64) -> Vec<i32> {
    use rand::seq::SliceRandom;
    use rand::SeedableRng;
    let names: Vec<i32> = g.get_all_node_names().into_iter().copied().collect();
    let mut sorted = names.clone();
    sorted.sort();
    let mut ranks: Vec<usize> = names.iter().map(|n| sorted.iter().position(|x| x == n).unwrap()).collect();
    let mut rng = rand::rngs::StdRng::seed_from_u64(seed);
    ranks.shuffle(&mut rng);
    ranks.into_iter().map(|r| sorted[r]).collect()
}

/// The list of Louvain calls made for a graph.
pub fn louvain_calls(g: &G, seeds: i64, full: bool) -> Vec<Value> {
    let mut calls = vec![];
    let modes: Vec<bool> = if g.edges_have_weight() && !g.get_all_edges().is_empty() { vec![false, true] } else { vec![false] };
    for weighted in modes {
        for seed in 0..seeds {
            let (rn, rd) = LOUVAIN_RESOLUTIONS[(seed as usize) % if full { 4 } else { 1 }];
            let thr: i64 = match seed % 3 { 0 => -1, 1 => 0, _ => 1_000_000 };
            calls.push(json!({"weighted": weighted, "res": [rn, rd], "res_default": (rn, rd) == (1, 1) && seed % 2 == 0,
                "threshold_e7": if full { thr } else { -1 }, "seed": seed}));
        }
    }
    calls
}

// ---------------------------------------------------------------------------
// C18: eigenvector centrality

/// One documented step x -> normalise(x + A^T x) on the stored edges.
fn eigen_step(g: &G, weighted: bool, names: &[i32], x: &HashMap<i32, f64>) -> HashMap<i32, f64> {
    let mut y: HashMap<i32, f64> = x.clone();
    for e in g.get_all_edges() {
        let w = if !weighted || e.weight.is_nan() { 1.0 } else { e.weight };
        *y.get_mut(&e.v).unwrap() += x[&e.u] * w;
        if !g.specs.directed && e.u != e.v {
            *y.get_mut(&e.u).unwrap() += x[&e.v] * w;
        }
    }
    let mut norm = names.iter().map(|n| y[n] * y[n]).sum::<f64>().sqrt();
    if norm == 0.0 {
        norm = 1.0;
    }
    names.iter().map(|n| (*n, y[n] / norm)).collect()
}

pub fn suite_eigen(g: &G) -> Value {
    use graphrs::algorithms::centrality::eigenvector::eigenvector_centrality;
    let names: Vec<i32> = { let mut v: Vec<i32> = g.get_all_node_names().into_iter().copied().collect(); v.sort(); v };
    let n = names.len();
    let mut groups = vec![];
    let modes: Vec<bool> = if g.edges_have_weight() && !g.get_all_edges().is_empty() { vec![false, true] } else { vec![false] };
    for weighted in modes {
        for (tol, tol_txt) in [(1e-12, "1e-12"), (1e-9, "1e-9"), (1e-6, "1e-6"), (1e-2, "1e-2")] {
            let mut calls = vec![];
            let mut prev_ok: Option<HashMap<i32, f64>> = None;
            for mi in [1u32, 2, 3, 5, 20, 100, 1000] {
                let r = guarded(|| match eigenvector_centrality(g, weighted, Some(mi), Some(tol)) {
                    Ok(x) => {
                        let entries_ok = x.len() == n && names.iter().all(|k| x.contains_key(k));
                        if !entries_ok {
                            return json!({"e": "", "entries_ok": false, "nonneg": false, "finite": false, "norm_err_e12": 0, "ratio_milli": 0, "same_as_prev": true});
                        }
                        let finite = x.values().all(|v| v.is_finite());
                        let nonneg = x.values().all(|v| *v >= 0.0);
                        let norm = x.values().map(|v| v * v).sum::<f64>().sqrt();
                        let t = eigen_step(g, weighted, &names, &x);
                        let resid: f64 = names.iter().map(|k| (t[k] - x[k]).abs()).sum();
                        let ratio = resid / (n as f64 * tol);
                        json!({"e": "", "entries_ok": true, "nonneg": nonneg, "finite": finite,
                               "norm_err_e12": ((norm - 1.0).abs() * 1.0e12).round().min(2.0e9) as i64,
                               "ratio_milli": (ratio * 1000.0).round().min(2.0e9) as i64,
                               "x": names.iter().map(|k| x[k]).collect::<Vec<f64>>()})
                    }
                    Err(e) => json!({"e": kind_name(&e.kind)}),
                });
                let mut call = json!({"max_iter": mi, "e": r["e"], "entries_ok": r.get("entries_ok").cloned().unwrap_or(json!(true)),
                    "nonneg": r.get("nonneg").cloned().unwrap_or(json!(true)), "finite": r.get("finite").cloned().unwrap_or(json!(true)),
                    "norm_err_e12": r.get("norm_err_e12").cloned().unwrap_or(json!(0)), "ratio_milli": r.get("ratio_milli").cloned().unwrap_or(json!(0)),
                    "same_as_prev": true});
                if let Some(xs) = r.get("x").and_then(|v| v.as_array()) {
                    let cur: HashMap<i32, f64> = names.iter().zip(xs.iter()).map(|(k, v)| (*k, v.as_f64().unwrap_or(f64::NAN))).collect();
                    if let Some(p) = &prev_ok {
                        call["same_as_prev"] = json!(names.iter().all(|k| (p[k] - cur[k]).abs() <= 1.0e-12));
                    }
                    prev_ok = Some(cur);
                }
                calls.push(call);
            }
            // the documented iteration, repeated here: start at 1/n, x <- normalise(x + A^T x), converged when the
            // entries moved by less than n * tol in total.  kref_lo / kref_hi: first iteration at which the
            // movement is below the threshold widened / narrowed by 1e-6 (rounding may differ in the last bits)
            let thr = n as f64 * tol;
            let (mut kref_lo, mut kref_hi) = (1_000_000i64, 1_000_000i64);
            let mut x: HashMap<i32, f64> = names.iter().map(|k| (*k, 1.0 / n as f64)).collect();
            for k in 1..=1000i64 {
                let next = eigen_step(g, weighted, &names, &x);
                let moved: f64 = names.iter().map(|v| (next[v] - x[v]).abs()).sum();
                if kref_lo == 1_000_000 && moved < thr * (1.0 + 1.0e-6) {
                    kref_lo = k;
                }
                if moved < thr * (1.0 - 1.0e-6) {
                    kref_hi = k;
                    break;
                }
                x = next;
            }
            groups.push(json!({"weighted": weighted, "tol": tol_txt, "calls": calls, "kref_lo": kref_lo, "kref_hi": kref_hi}));
        }
    }
    json!({"groups": groups})
}
