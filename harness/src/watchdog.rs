//! Calls that may hang, overflow the stack or abort are executed in a child
//! process (`gv worker`) with a per-call deadline.  A call that does not answer in
//! time is reported as {"e": "Hang"} (the child is killed and replaced); a child
//! that dies is reported as {"e": "Abort"}.

use serde_json::{json, Value};
use std::io::{BufRead, BufReader, Write};
use std::process::{Child, ChildStdin, Command, Stdio};
use std::sync::mpsc::{channel, Receiver, RecvTimeoutError};
use std::time::Duration;

pub struct Worker {
    child: Child,
    stdin: ChildStdin,
    rx: Receiver<String>,
}

impl Worker {
    pub fn spawn() -> Worker {
        let exe = std::env::current_exe().expect("current_exe");
        let mut child = Command::new(exe)
            .arg("worker")
            .stdin(Stdio::piped())
            .stdout(Stdio::piped())
            .stderr(Stdio::null())
            .spawn()
            .expect("spawn worker");
        let stdin = child.stdin.take().unwrap();
        let stdout = child.stdout.take().unwrap();
        let (tx, rx) = channel();
        std::thread::spawn(move || {
            for line in BufReader::new(stdout).lines() {
                match line {
                    Ok(l) => {
                        if tx.send(l).is_err() {
                            break;
                        }
                    }
                    Err(_) => break,
                }
            }
        });
        Worker { child, stdin, rx }
    }

    fn kill(&mut self) {
        let _ = self.child.kill();
        let _ = self.child.wait();
    }
}

pub struct Pool {
    w: Option<Worker>,
    /// After this many calls have run into their deadline the remaining calls are not made
    /// (answer {"e": "NotRun"}): the verdict is decided by then, and a change that makes every
    /// call hang would otherwise cost ten seconds per call.
    pub hang_budget: Option<u64>,
    pub hangs: u64,
    pub aborts: u64,
    pub calls: u64,
}

impl Pool {
    pub fn new() -> Pool {
        Pool { w: None, hang_budget: None, hangs: 0, aborts: 0, calls: 0 }
    }

    /// Sends one request line to the worker and waits for one answer line.
    pub fn with_hang_budget(n: u64) -> Pool {
        let mut pool = Pool::new();
        pool.hang_budget = Some(n);
        pool
    }

    pub fn call(&mut self, req: &Value, timeout: Duration) -> Value {
        if self.hang_budget.map_or(false, |b| self.hangs >= b) {
            return json!({"e": "NotRun", "v": []});
        }
        self.calls += 1;
        if self.w.is_none() {
            self.w = Some(Worker::spawn());
        }
        let w = self.w.as_mut().unwrap();
        let line = format!("{}\n", req);
        if w.stdin.write_all(line.as_bytes()).is_err() || w.stdin.flush().is_err() {
            w.kill();
            self.w = None;
            self.aborts += 1;
            return json!({"e": "Abort", "v": []});
        }
        match w.rx.recv_timeout(timeout) {
            Ok(l) => serde_json::from_str(&l).unwrap_or(json!({"e": "Abort", "v": [], "raw": l})),
            Err(RecvTimeoutError::Timeout) => {
                w.kill();
                self.w = None;
                self.hangs += 1;
                json!({"e": "Hang", "v": []})
            }
            Err(RecvTimeoutError::Disconnected) => {
                w.kill();
                self.w = None;
                self.aborts += 1;
                json!({"e": "Abort", "v": []})
            }
        }
    }
}

impl Drop for Pool {
    fn drop(&mut self) {
        if let Some(w) = self.w.as_mut() {
            w.kill();
        }
    }
}
