//! The full read-API table of one graph state (properties C02 and C09).
//!
//! Every answer is {"e": <error kind or "">, "v": <value>}; on error `v` is a
//! default of the right shape so that the specification never compares values of
//! different types.  Lists whose order is not contractual are put in a canonical
//! order (sets: ascending; edge lists: stable by pair); contractual orders (node
//! order, parallel edges of one pair, BFS first element) are kept.

use crate::model::*;
use crate::rat::rat;
use graphrs::{algorithms::centrality::degree::degree_centrality, Edge, Error, Node};
use serde_json::{json, Value};
use std::collections::{HashMap, HashSet};
use std::sync::Arc;

fn ok(v: Value) -> Value {
    json!({"e": "", "v": v})
}
fn err(e: &Error, dflt: Value) -> Value {
    json!({"e": kind_name(&e.kind), "v": dflt})
}

fn edges_ans(r: Result<Vec<&Arc<Edge<i32, i32>>>, Error>, keep_order: bool) -> Value {
    match r {
        Ok(es) => ok(if keep_order {
            Value::Array(es.iter().map(|e| edge_json(e)).collect())
        } else {
            Value::Array(canon_edges(es))
        }),
        Err(e) => err(&e, json!([])),
    }
}

fn nodes_ans(r: Result<Vec<&Arc<Node<i32, i32>>>, Error>) -> Value {
    match r {
        Ok(ns) => {
            let mut v: Vec<i32> = ns.iter().map(|n| n.name).collect();
            v.sort();
            ok(json!(v))
        }
        Err(e) => err(&e, json!([])),
    }
}

fn names_ans(r: Result<Vec<&i32>, Error>) -> Value {
    match r {
        Ok(ns) => {
            let mut v: Vec<i32> = ns.into_iter().copied().collect();
            v.sort();
            ok(json!(v))
        }
        Err(e) => err(&e, json!([])),
    }
}

fn name_map(m: &HashMap<i32, HashSet<i32>>) -> Value {
    let mut keys: Vec<&i32> = m.keys().collect();
    keys.sort();
    Value::Array(
        keys.into_iter()
            .map(|k| {
                let mut v: Vec<i32> = m[k].iter().copied().collect();
                v.sort();
                json!([k, v])
            })
            .collect(),
    )
}

fn subsets(names: &[i32]) -> Vec<Vec<i32>> {
    (0..(1u32 << names.len()))
        .map(|m| names.iter().enumerate().filter(|(i, _)| m >> i & 1 == 1).map(|(_, n)| *n).collect())
        .collect()
}

fn usize_map(r: Result<HashMap<i32, usize>, Error>) -> Value {
    match r {
        Ok(m) => {
            let mut v: Vec<(i32, usize)> = m.into_iter().collect();
            v.sort();
            ok(json!(v))
        }
        Err(e) => err(&e, json!([])),
    }
}

fn f64_map(r: Result<HashMap<i32, f64>, Error>) -> Value {
    match r {
        Ok(m) => {
            let mut v: Vec<(i32, f64)> = m.into_iter().collect();
            v.sort_by_key(|x| x.0);
            ok(Value::Array(v.into_iter().map(|(k, x)| json!([k, rat(x)])).collect()))
        }
        Err(e) => err(&e, json!([])),
    }
}

fn opt_usize(o: Option<usize>) -> Value {
    match o {
        Some(x) => json!({"e": "", "v": x}),
        None => json!({"e": "None", "v": 0}),
    }
}
fn opt_f64(o: Option<f64>) -> Value {
    match o {
        Some(x) => json!({"e": "", "v": rat(x)}),
        None => json!({"e": "None", "v": [0, 1]}),
    }
}

/// `names`: the name universe asked about (existing and absent names alike).
pub fn query_table(g: &G, names: &[i32]) -> Value {
    let mut q = serde_json::Map::new();
    let existing: Vec<i32> = g.get_all_node_names().into_iter().copied().collect();

    q.insert("names".into(), json!(names));
    q.insert("all_node_names".into(), json!(existing));

    // pair lookups
    let mut get_edge = vec![];
    let mut get_edges = vec![];
    for &u in names {
        for &v in names {
            get_edge.push(json!([u, v, match g.get_edge(u, v) {
                Ok(e) => ok(edge_json(e)),
                Err(e) => err(&e, json!([0, 0, 0, 0])),
            }]));
            get_edges.push(json!([u, v, edges_ans(g.get_edges(u, v), true)]));
        }
    }
    q.insert("get_edge".into(), Value::Array(get_edge));
    q.insert("get_edges".into(), Value::Array(get_edges));

    // per-node lists and adjacency
    let mut per_node = vec![];
    for &n in names {
        let has = g.has_node(&n);
        let node = g.get_node(n);
        per_node.push(json!({
            "n": n,
            "has_node": has,
            "get_node": match node { Some(x) => json!({"e": "", "v": [x.name, x.attributes.unwrap_or(0)]}),
                                     None => json!({"e": "None", "v": [0, 0]}) },
            "edges_for_node": edges_ans(g.get_edges_for_node(n), false),
            "in_edges_for_node": edges_ans(g.get_in_edges_for_node(n), false),
            "out_edges_for_node": edges_ans(g.get_out_edges_for_node(n), false),
            "neighbor_nodes": nodes_ans(g.get_neighbor_nodes(n)),
            "successor_nodes": nodes_ans(g.get_successor_nodes(n)),
            "predecessor_nodes": nodes_ans(g.get_predecessor_nodes(n)),
            "successor_node_names": names_ans(g.get_successor_node_names(n)),
            "predecessor_node_names": names_ans(g.get_predecessor_node_names(n)),
            "neighbor_len": g.get_neighbor_nodes(n).map(|v| v.len()).unwrap_or(0),
            "successor_len": g.get_successor_nodes(n).map(|v| v.len()).unwrap_or(0),
            "predecessor_len": g.get_predecessor_nodes(n).map(|v| v.len()).unwrap_or(0),
            "degree": opt_usize(g.get_node_degree(n)),
            "in_degree": opt_usize(g.get_node_in_degree(n)),
            "out_degree": opt_usize(g.get_node_out_degree(n)),
            "w_degree": opt_f64(g.get_node_weighted_degree(n)),
            "w_in_degree": opt_f64(g.get_node_weighted_in_degree(n)),
            "w_out_degree": opt_f64(g.get_node_weighted_out_degree(n)),
            // functions without an error channel: only asked for existing names
            "bfs": if has { json!(g.breadth_first_search(&n)) } else { json!([]) },
            "succ_or_nbrs": if has { let mut v: Vec<i32> = g.get_successors_or_neighbors(n).iter().map(|x| x.name).collect(); v.sort(); json!(v) } else { json!([]) },
        }));
    }
    q.insert("per_node".into(), Value::Array(per_node));

    // node-set variants, all subsets of the universe
    let mut per_set = vec![];
    for s in subsets(names) {
        per_set.push(json!({
            "s": s,
            "has_nodes": g.has_nodes(&s),
            "edges_for_nodes": edges_ans(g.get_edges_for_nodes(&s), false),
            "in_edges_for_nodes": edges_ans(g.get_in_edges_for_nodes(&s), false),
            "out_edges_for_nodes": edges_ans(g.get_out_edges_for_nodes(&s), false),
        }));
    }
    q.insert("per_set".into(), Value::Array(per_set));

    // position lookups 0..=n
    let n = g.number_of_nodes();
    let by_index: Vec<Value> = (0..=n)
        .map(|i| match g.get_node_by_index(&i) {
            Some(x) => json!([i, {"e": "", "v": [x.name, x.attributes.unwrap_or(0)]}]),
            None => json!([i, {"e": "None", "v": [0, 0]}]),
        })
        .collect();
    q.insert("node_by_index".into(), Value::Array(by_index));

    q.insert("successors_map".into(), name_map(g.get_successors_map()));
    q.insert("predecessors_map".into(), name_map(g.get_predecessors_map()));

    // counts, degrees, density (C09)
    q.insert("number_of_nodes".into(), json!(g.number_of_nodes()));
    q.insert("number_of_edges".into(), json!(g.number_of_edges()));
    q.insert("size_unweighted".into(), rat(g.size(false)));
    q.insert("size_weighted".into(), rat(g.size(true)));
    q.insert("density".into(), rat(g.get_density()));
    q.insert("edges_have_weight".into(), json!(g.edges_have_weight()));
    q.insert("degree_all".into(), usize_map(Ok(g.get_degree_for_all_nodes())));
    q.insert("in_degree_all".into(), usize_map(g.get_in_degree_for_all_nodes()));
    q.insert("out_degree_all".into(), usize_map(g.get_out_degree_for_all_nodes()));
    q.insert("w_degree_all".into(), f64_map(Ok(g.get_weighted_degree_for_all_nodes())));
    q.insert("w_in_degree_all".into(), f64_map(g.get_weighted_in_degree_for_all_nodes()));
    q.insert("w_out_degree_all".into(), f64_map(g.get_weighted_out_degree_for_all_nodes()));
    q.insert("degree_centrality".into(), f64_map(Ok(degree_centrality(g))));
    let kind = |r: Result<(), Error>| match r { Ok(()) => "".to_string(), Err(e) => kind_name(&e.kind).to_string() };
    q.insert("ensure_directed".into(), json!(kind(g.ensure_directed())));
    q.insert("ensure_undirected".into(), json!(kind(g.ensure_undirected())));
    q.insert("ensure_not_multi_edges".into(), json!(kind(g.ensure_not_multi_edges())));
    q.insert("ensure_weighted".into(), json!(kind(g.ensure_weighted())));
    q.insert("adjacency_matrix".into(), match g.get_sparse_adjacency_matrix() {
        Ok(m) => {
            let mut trip: Vec<(usize, usize, f64)> = m.iter().map(|(x, (i, j))| (i, j, *x)).collect();
            trip.sort_by_key(|t| (t.0, t.1));
            json!({"e": "", "v": trip.iter().map(|(i, j, x)| json!([i, j, rat(*x)])).collect::<Vec<_>>(),
                   "rows": m.rows(), "cols": m.cols()})
        }
        Err(e) => json!({"e": kind_name(&e.kind), "v": [], "rows": 0, "cols": 0}),
    });
    Value::Object(q)
}
