//! C07: the parallel code paths against the single-threaded computation, bit for bit,
//! under caller-installed rayon pools of every size, plus concurrent read-only use;
//! and the hook traces of the parallel sections (schedule as actually executed).

use crate::model::*;
use crate::mutgen::Emitter;
use graphrs::algorithms::centrality::{betweenness, closeness};
use graphrs::algorithms::shortest_path::dijkstra;
use graphrs::generators::social;
use rand::prelude::*;
use rand_chacha::ChaCha8Rng;
use serde_json::{json, Value};
use std::io::Write;

type Canon = Vec<(i32, i32, u64, Vec<Vec<i32>>)>;

fn canon_ap(r: Result<std::collections::HashMap<i32, std::collections::HashMap<i32, dijkstra_spi::Spi>>, graphrs::Error>) -> Result<Canon, String> {
    match r {
        Err(e) => Err(kind_name(&e.kind).to_string()),
        Ok(m) => {
            let mut v: Canon = vec![];
            for (s, inner) in m {
                for (t, spi) in inner {
                    let mut paths = spi.paths;
                    paths.sort();
                    v.push((s, t, spi.distance.to_bits(), paths));
                }
            }
            v.sort();
            Ok(v)
        }
    }
}

mod dijkstra_spi {
    pub type Spi = graphrs::algorithms::shortest_path::ShortestPathInfo<i32>;
}

fn canon_map(r: Result<std::collections::HashMap<i32, f64>, graphrs::Error>) -> Result<Canon, String> {
    match r {
        Err(e) => Err(kind_name(&e.kind).to_string()),
        Ok(m) => {
            let mut v: Canon = m.into_iter().map(|(k, x)| (k, 0, x.to_bits(), vec![])).collect();
            v.sort();
            Ok(v)
        }
    }
}

fn canon_inv(r: Vec<dijkstra_spi::Spi>) -> Result<Canon, String> {
    let mut v: Canon = r
        .into_iter()
        .map(|spi| {
            let mut paths = spi.paths;
            paths.sort();
            let (s, t) = if paths.is_empty() { (0, 0) } else { (paths[0][0], *paths[0].last().unwrap()) };
            (s, t, spi.distance.to_bits(), paths)
        })
        .collect();
    v.sort();
    Ok(v)
}

pub const FNS: [&str; 14] = ["all_pairs", "multi_source", "involving", "betweenness", "closeness", "all_pairs_target", "all_pairs_cutoff_first", "multi_source_subset", "involving_each",
    "all_pairs_dist", "all_pairs_target_dist", "all_pairs_target_first", "all_pairs_cutoff_dist", "multi_source_target_dist"];

fn call(g: &G, f: &str, weighted: bool) -> Result<Canon, String> {
    let names: Vec<i32> = g.get_all_node_names().into_iter().copied().collect();
    match f {
        "all_pairs" => canon_ap(dijkstra::all_pairs(g, weighted, None, None, false, true)),
        "multi_source" => canon_ap(dijkstra::multi_source(g, weighted, names, None, None, false, true)),
        "involving" => canon_inv(dijkstra::get_all_shortest_paths_involving(g, *names.get(names.len() / 2).unwrap_or(&0), weighted)),
        // every node as the intermediate one (small graphs only: each call is an all-pairs search)
        "involving_each" => {
            let mut all: Canon = vec![];
            for x in names.iter().take(if names.len() <= 26 { 26 } else { 4 }) {
                let mut part = canon_inv(dijkstra::get_all_shortest_paths_involving(g, *x, weighted))?;
                for e in part.iter_mut() {
                    e.3.push(vec![*x]); // tag the entries with the queried node
                }
                all.extend(part);
            }
            Ok(all)
        }
        // option variants: the parallel closures have their own handling of target / cutoff / first_only
        "all_pairs_target" => canon_ap(dijkstra::all_pairs(g, weighted, names.get(names.len() / 3).copied(), None, false, true)),
        "all_pairs_cutoff_first" => canon_ap(dijkstra::all_pairs(g, weighted, None, Some(if weighted { 0.9 } else { 2.0 }), true, true)),
        "multi_source_subset" => canon_ap(dijkstra::multi_source(g, weighted, names.iter().step_by(3).copied().collect(), names.last().copied(), Some(if weighted { 1.5 } else { 3.0 }), false, true)),
        // distances only: the closures choose between the basic and the full search from the option combination
        "all_pairs_dist" => canon_ap(dijkstra::all_pairs(g, weighted, None, None, false, false)),
        "all_pairs_target_dist" => canon_ap(dijkstra::all_pairs(g, weighted, names.get(names.len() / 3).copied(), None, false, false)),
        "all_pairs_target_first" => canon_ap(dijkstra::all_pairs(g, weighted, names.get(names.len() / 2).copied(), None, true, true)),
        "all_pairs_cutoff_dist" => canon_ap(dijkstra::all_pairs(g, weighted, None, Some(if weighted { 1.5 } else { 2.0 }), false, false)),
        "multi_source_target_dist" => canon_ap(dijkstra::multi_source(g, weighted, names.clone(), names.first().copied(), None, false, false)),
        "betweenness" => canon_map(betweenness::betweenness_centrality(g, weighted, true)),
        "closeness" => canon_map(closeness::closeness_centrality(g, weighted, true)),
        _ => unreachable!(),
    }
}

fn in_pool<T: Send, F: FnOnce() -> T + Send>(k: usize, f: F) -> T {
    rayon::ThreadPoolBuilder::new().num_threads(k).build().expect("pool").install(f)
}

fn first_diff(a: &Result<Canon, String>, b: &Result<Canon, String>) -> Value {
    match (a, b) {
        (Ok(x), Ok(y)) => {
            if x.len() != y.len() {
                return json!({"len": [x.len(), y.len()]});
            }
            for (p, q) in x.iter().zip(y.iter()) {
                if p != q {
                    return json!({"serial": [p.0, p.1, f64::from_bits(p.2), p.3.len()], "parallel": [q.0, q.1, f64::from_bits(q.2), q.3.len()],
                                  "bits": [format!("{:016x}", p.2), format!("{:016x}", q.2)]});
                }
            }
            json!({})
        }
        (x, y) => json!({"serial_err": x.as_ref().err(), "parallel_err": y.as_ref().err()}),
    }
}

/// Graphs with more than 20 nodes: tie-heavy unweighted ones, and weighted ones with
/// non-dyadic weights so that any re-association of additions changes low-order bits.
pub fn big_graphs(rng: &mut ChaCha8Rng, thorough: bool) -> Vec<(String, G, bool)> {
    let mut out: Vec<(String, G, bool)> = vec![];
    let wts = [0.1, 0.2, 0.3, 0.7, 1.1, 0.15];
    let mk = |directed: bool, multi: bool| SpecsJ { directed, multi, loops: false, dedupe: 2, missing: 0, loopfalse: 1 };
    // 5 x 5 grid, undirected, unweighted: many equal-length paths
    let mut g = G::new(mk(false, false).to_specs());
    for r in 0..5 {
        for c in 0..5 {
            let id = r * 5 + c + 1;
            if c < 4 { g.add_edge(mk_edge((id, id + 1, NAN_W, 0))).unwrap(); }
            if r < 4 { g.add_edge(mk_edge((id, id + 5, NAN_W, 0))).unwrap(); }
        }
    }
    out.push(("grid5x5".into(), g, false));
    // complete bipartite K(11,11), directed both ways
    let mut g = G::new(mk(true, false).to_specs());
    for a in 1..=11 {
        for b in 12..=22 {
            g.add_edge(mk_edge((a, b, NAN_W, 0))).unwrap();
            if (a + b) % 3 != 0 { g.add_edge(mk_edge((b, a, NAN_W, 0))).unwrap(); }
        }
    }
    out.push(("bipartite11".into(), g, false));
    // karate club with non-dyadic weights
    let k = social::karate_club_graph();
    let mut g = G::new(mk(false, false).to_specs());
    for (i, e) in k.get_all_edges().iter().enumerate() {
        let mut ed = (*mk_edge((e.u + 1, e.v + 1, 1, 0))).clone();
        ed.weight = wts[(e.u as usize * 7 + e.v as usize * 3 + i) % wts.len()];
        let _ = g.add_edge(std::sync::Arc::new(ed));
    }
    out.push(("karate_weighted".into(), g, true));
    // zero-weight edges and weights small enough to be absorbed (1 + 2^-60 == 1): distances that do not grow
    // along a path, which a pruning comparison written with > instead of >= gets wrong
    for (name, directed) in [("chain_zero", true), ("ring_tiny", false)] {
        let n = 24;
        let mut g = G::new(mk(directed, false).to_specs());
        for u in 1..=n { g.add_node(mk_node((u, 0))); }
        for u in 1..=n {
            let v = if u == n { if directed { continue } else { 1 } } else { u + 1 };
            let mut ed = (*mk_edge((u, v, 1, 0))).clone();
            ed.weight = match u % 4 { 1 => if directed { 0.0 } else { 2.0f64.powi(-60) }, 2 => 1.0, 3 => 0.5, _ => 1.0 };
            let _ = g.add_edge(std::sync::Arc::new(ed));
        }
        for (u, v, w) in [(1, 9, 2.5), (4, 15, 3.0), (10, 20, 2.0)] {
            let mut ed = (*mk_edge((u, v, 1, 0))).clone();
            ed.weight = w;
            let _ = g.add_edge(std::sync::Arc::new(ed));
        }
        out.push((name.into(), g, true));
    }
    // random graphs of all kinds, 21..60 nodes
    let count = if thorough { 16 } else { 5 };
    for i in 0..count {
        let n = rng.gen_range(21..=if thorough { 60 } else { 40 });
        let specs = SpecsJ { directed: i % 2 == 0, multi: i % 3 == 0, loops: i % 4 == 0, dedupe: 2, missing: 0, loopfalse: 1 };
        let weighted = i % 2 == 1 || i % 3 == 0;
        let mut g = G::new(specs.to_specs());
        for u in 1..=n { g.add_node(mk_node((u, 0))); }
        let p = 3.0 / n as f64;
        for u in 1..=n {
            for v in 1..=n {
                if (u == v && !specs.loops) || (!specs.directed && u > v) { continue; }
                if rng.gen_bool(p) {
                    for _ in 0..(if specs.multi { rng.gen_range(1..=2) } else { 1 }) {
                        let mut ed = (*mk_edge((u, v, 1, 0))).clone();
                        ed.weight = if weighted { wts[rng.gen_range(0..wts.len())] } else { f64::NAN };
                        let _ = g.add_edge(std::sync::Arc::new(ed));
                    }
                }
            }
        }
        out.push((format!("random{}_{}", i, specs.short()), g, weighted));
    }
    out
}

#[cfg(graphrs_verif)]
fn hook_events() -> Vec<Value> {
    graphrs::verif_hooks::take()
        .into_iter()
        .map(|(site, phase, index, th)| json!([site, phase, if index == usize::MAX { -1 } else { index as i64 }, th.map(|x| x as i64).unwrap_or(-1)]))
        .collect()
}
#[cfg(graphrs_verif)]
fn hooks_on(on: bool) {
    if on { let _ = graphrs::verif_hooks::take(); }
    graphrs::verif_hooks::enable(on);
}
#[cfg(not(graphrs_verif))]
fn hook_events() -> Vec<Value> { vec![] }
#[cfg(not(graphrs_verif))]
fn hooks_on(_on: bool) {}

pub fn par_events<W: Write>(em: &mut Emitter<W>, thorough: bool, seed: u64) {
    let mut rng = ChaCha8Rng::seed_from_u64(seed);
    let pools: Vec<usize> = if thorough { (2..=16).collect() } else { vec![2, 3, 4, 8, 16] };
    let reps = if thorough { 40 } else { 8 };
    for (tag, g, weighted_ok) in big_graphs(&mut rng, thorough) {
        let n = g.number_of_nodes();
        for weighted in if weighted_ok { vec![true] } else { vec![false] } {
            for f in FNS {
                let serial = in_pool(1, || call(&g, f, weighted));
                // the serial path must itself be repeatable, else nothing can be concluded
                let serial2 = in_pool(1, || call(&g, f, weighted));
                for &k in &pools {
                    let mut equal = serial == serial2;
                    let mut diff = json!({});
                    let mut hook = vec![];
                    for r in 0..reps {
                        let trace = r == 0;
                        if trace { hooks_on(true); }
                        let got = in_pool(k, || call(&g, f, weighted));
                        if trace { hooks_on(false); hook = hook_events(); }
                        if got != serial {
                            if equal { diff = first_diff(&serial, &got); }
                            equal = false;
                        }
                    }
                    let threads: std::collections::HashSet<i64> = hook.iter().map(|e| e[3].as_i64().unwrap()).filter(|t| *t >= 0).collect();
                    em.emit(json!({"parent": 0, "op": {"k": "par_call"}, "fn": f, "graph": tag, "n": n, "weighted": weighted, "pool": k, "reps": reps,
                        "serial_repeatable": serial == serial2, "equal": equal, "first_diff": diff, "distinct_threads": threads.len(),
                        "expect_parallel": n > 20 && k > 1, "hook": hook}));
                }
            }
            // concurrent read-only use of one graph from 8 threads (global pool)
            let refs: Vec<Result<Canon, String>> = FNS.iter().map(|f| in_pool(1, || call(&g, f, weighted))).collect();
            let mut all_equal = true;
            let mut diff = json!({});
            std::thread::scope(|sc| {
                let handles: Vec<_> = (0..8).map(|t| {
                    let g = &g;
                    sc.spawn(move || FNS.iter().map(|f| call(g, f, weighted)).collect::<Vec<_>>().into_iter().enumerate().map(move |(i, r)| (t, i, r)).collect::<Vec<_>>())
                }).collect();
                for h in handles {
                    for (_t, i, r) in h.join().unwrap() {
                        if r != refs[i] {
                            if all_equal { diff = json!({"fn": FNS[i], "d": first_diff(&refs[i], &r)}); }
                            all_equal = false;
                        }
                    }
                }
            });
            em.emit(json!({"parent": 0, "op": {"k": "par_concurrent"}, "graph": tag, "n": n, "weighted": weighted, "threads": 8, "equal": all_equal, "first_diff": diff}));
        }
    }
}
