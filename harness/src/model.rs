//! Shared vocabulary between the harness and the TLA+ specification:
//! GraphSpecs <-> JSON, operations, the projection of a real Graph onto the
//! abstract state of spec/GraphRules.tla, and the hook snapshot.

use graphrs::{
    Edge, EdgeDedupeStrategy, Error, ErrorKind, Graph, GraphSpecs, MissingNodeStrategy, Node,
    SelfLoopsFalseStrategy,
};
use serde_json::{json, Value};
use std::sync::Arc;

pub type G = Graph<i32, i32>;

/// Weight encoding used in every trace: NaN (unweighted) is -1.
pub const NAN_W: i64 = -1;

thread_local! {
    /// Weight divisor of the case being observed: a trace weight w stands for the real edge weight
    /// w / WDIV (a power of two, so that scaling is exact).  The specification only has integers;
    /// with WDIV = 2 the library sees weights such as 0.5 and 1.5 while the specification sees 1 and 3,
    /// and the harness scales distances / closeness back before logging them.
    static WDIV: std::cell::Cell<i64> = const { std::cell::Cell::new(1) };
}
pub fn wdiv() -> i64 {
    WDIV.with(|c| c.get())
}
pub fn set_wdiv(d: i64) {
    WDIV.with(|c| c.set(d.max(1)))
}

pub fn w_to_f(w: i64) -> f64 {
    if w == NAN_W {
        f64::NAN
    } else {
        w as f64 / wdiv() as f64
    }
}

/// f64 weight -> trace integer.  Non-integral / huge weights never occur in
/// monitored traces; they are mapped to a value no specification weight equals.
pub fn f_to_w(f: f64) -> i64 {
    let f = f * wdiv() as f64;
    if f.is_nan() {
        NAN_W
    } else if f.is_finite() && f.fract() == 0.0 && f.abs() < 1.0e9 {
        f as i64
    } else {
        -777_777
    }
}

#[derive(Clone, Copy, Debug, PartialEq, Eq, Hash)]
pub struct SpecsJ {
    pub directed: bool,
    pub multi: bool,
    pub loops: bool,
    pub dedupe: u8,    // 0 Error, 1 KeepFirst, 2 KeepLast
    pub missing: u8,   // 0 Create, 1 Error
    pub loopfalse: u8, // 0 Error, 1 Drop
}

pub const DEDUPE: [&str; 3] = ["Error", "KeepFirst", "KeepLast"];
pub const MISSING: [&str; 2] = ["Create", "Error"];
pub const LOOPFALSE: [&str; 2] = ["Error", "Drop"];

impl SpecsJ {
    /// All 96 combinations, in a fixed order.
    pub fn all() -> Vec<SpecsJ> {
        let mut v = vec![];
        for directed in [true, false] {
            for multi in [false, true] {
                for loops in [false, true] {
                    for dedupe in 0..3u8 {
                        for missing in 0..2u8 {
                            for loopfalse in 0..2u8 {
                                v.push(SpecsJ { directed, multi, loops, dedupe, missing, loopfalse });
                            }
                        }
                    }
                }
            }
        }
        v
    }

    /// The 8 graph kinds with permissive policies (Create / KeepLast / Drop).
    pub fn kinds() -> Vec<SpecsJ> {
        let mut v = vec![];
        for directed in [true, false] {
            for multi in [false, true] {
                for loops in [false, true] {
                    v.push(SpecsJ { directed, multi, loops, dedupe: 2, missing: 0, loopfalse: 1 });
                }
            }
        }
        v
    }

    pub fn to_specs(&self) -> GraphSpecs {
        GraphSpecs {
            directed: self.directed,
            multi_edges: self.multi,
            self_loops: self.loops,
            edge_dedupe_strategy: match self.dedupe {
                0 => EdgeDedupeStrategy::Error,
                1 => EdgeDedupeStrategy::KeepFirst,
                _ => EdgeDedupeStrategy::KeepLast,
            },
            missing_node_strategy: match self.missing {
                0 => MissingNodeStrategy::Create,
                _ => MissingNodeStrategy::Error,
            },
            self_loops_false_strategy: match self.loopfalse {
                0 => SelfLoopsFalseStrategy::Error,
                _ => SelfLoopsFalseStrategy::Drop,
            },
        }
    }

    pub fn from_specs(s: &GraphSpecs) -> SpecsJ {
        SpecsJ {
            directed: s.directed,
            multi: s.multi_edges,
            loops: s.self_loops,
            dedupe: match s.edge_dedupe_strategy {
                EdgeDedupeStrategy::Error => 0,
                EdgeDedupeStrategy::KeepFirst => 1,
                EdgeDedupeStrategy::KeepLast => 2,
            },
            missing: match s.missing_node_strategy {
                MissingNodeStrategy::Create => 0,
                MissingNodeStrategy::Error => 1,
            },
            loopfalse: match s.self_loops_false_strategy {
                SelfLoopsFalseStrategy::Error => 0,
                SelfLoopsFalseStrategy::Drop => 1,
            },
        }
    }

    pub fn to_json(&self) -> Value {
        json!({
            "directed": self.directed, "multi": self.multi, "loops": self.loops,
            "dedupe": DEDUPE[self.dedupe as usize],
            "missing": MISSING[self.missing as usize],
            "loopfalse": LOOPFALSE[self.loopfalse as usize],
        })
    }

    pub fn from_json(v: &Value) -> SpecsJ {
        let idx = |tbl: &[&str], s: &str| tbl.iter().position(|x| *x == s).unwrap() as u8;
        SpecsJ {
            directed: v["directed"].as_bool().unwrap(),
            multi: v["multi"].as_bool().unwrap(),
            loops: v["loops"].as_bool().unwrap(),
            dedupe: idx(&DEDUPE, v["dedupe"].as_str().unwrap()),
            missing: idx(&MISSING, v["missing"].as_str().unwrap()),
            loopfalse: idx(&LOOPFALSE, v["loopfalse"].as_str().unwrap()),
        }
    }

    pub fn short(&self) -> String {
        format!(
            "{}{}{}-{}-{}-{}",
            if self.directed { "D" } else { "U" },
            if self.multi { "M" } else { "S" },
            if self.loops { "L" } else { "N" },
            DEDUPE[self.dedupe as usize],
            MISSING[self.missing as usize],
            LOOPFALSE[self.loopfalse as usize]
        )
    }
}

/// An edge argument: (u, v, w, a) with w in trace encoding and a = attribute tag (0 = None).
pub type EdgeArg = (i32, i32, i64, i32);
/// A node argument: (name, a).
pub type NodeArg = (i32, i32);

#[derive(Clone, Debug)]
pub enum Op {
    AddNode(NodeArg),
    AddNodes(Vec<NodeArg>),
    AddEdge(EdgeArg),
    AddEdges(Vec<EdgeArg>),
    AddEdgeTuple(i32, i32),
    AddEdgeTuples(Vec<(i32, i32)>),
    // derived graphs (C15): the derived graph replaces the current one
    Subgraph(Vec<i32>),
    Reverse,
    SetWeights(i64),
    ToSingle,
}

pub fn mk_node(n: NodeArg) -> Arc<Node<i32, i32>> {
    if n.1 == 0 {
        Node::from_name(n.0)
    } else {
        Node::from_name_and_attributes(n.0, n.1)
    }
}

pub fn mk_edge(e: EdgeArg) -> Arc<Edge<i32, i32>> {
    Arc::new(Edge {
        u: e.0,
        v: e.1,
        weight: w_to_f(e.2),
        attributes: if e.3 == 0 { None } else { Some(e.3) },
    })
}

pub fn kind_name(k: &ErrorKind) -> &'static str {
    match k {
        ErrorKind::ContradictoryPaths => "ContradictoryPaths",
        ErrorKind::DuplicateEdge => "DuplicateEdge",
        ErrorKind::InvalidArgument => "InvalidArgument",
        ErrorKind::NodeNotFound => "NodeNotFound",
        ErrorKind::NoPartitions => "NoPartitions",
        ErrorKind::NotAPartition => "NotAPartition",
        ErrorKind::EdgeNotFound => "EdgeNotFound",
        ErrorKind::EdgeWeightNotSpecified => "EdgeWeightNotSpecified",
        ErrorKind::PowerIterationFailedConvergence => "PowerIterationFailedConvergence",
        ErrorKind::ReadError => "ReadError",
        ErrorKind::SelfLoopsFound => "SelfLoopsFound",
        ErrorKind::WrongMethod => "WrongMethod",
    }
}

pub fn res_name(r: &Result<(), Error>) -> &'static str {
    match r {
        Ok(()) => "Ok",
        Err(e) => kind_name(&e.kind),
    }
}

impl Op {
    pub fn apply(&self, g: &mut G) -> &'static str {
        match self {
            Op::AddNode(n) => {
                g.add_node(mk_node(*n));
                "Ok"
            }
            Op::AddNodes(ns) => {
                g.add_nodes(ns.iter().map(|n| mk_node(*n)).collect());
                "Ok"
            }
            Op::AddEdge(e) => res_name(&g.add_edge(mk_edge(*e))),
            Op::AddEdges(es) => res_name(&g.add_edges(es.iter().map(|e| mk_edge(*e)).collect())),
            Op::AddEdgeTuple(u, v) => res_name(&g.add_edge_tuple(*u, *v)),
            Op::AddEdgeTuples(ts) => res_name(&g.add_edge_tuples(ts.clone())),
            _ => self.apply_derive(g).0,
        }
    }

    pub fn is_derive(&self) -> bool {
        matches!(self, Op::Subgraph(_) | Op::Reverse | Op::SetWeights(_) | Op::ToSingle)
    }

    /// Derive operations: on success the derived graph replaces `g`.  Returns the outcome
    /// and the projection of the SOURCE graph after the call (it must be unchanged).
    pub fn apply_derive(&self, g: &mut G) -> (&'static str, Value) {
        let r: Result<G, Error> = match self {
            Op::Subgraph(s) => Ok(g.get_subgraph(s)),
            Op::Reverse => g.reverse(),
            Op::SetWeights(w) => Ok(g.set_all_edge_weights(w_to_f(*w))),
            Op::ToSingle => g.to_single_edges(),
            _ => unreachable!(),
        };
        let src_after = project(g);
        match r {
            Ok(ng) => {
                *g = ng;
                ("Ok", src_after)
            }
            Err(e) => (kind_name(&e.kind), src_after),
        }
    }

    pub fn to_json(&self) -> Value {
        let ej = |e: &EdgeArg| json!([e.0, e.1, e.2, e.3]);
        let nj = |n: &NodeArg| json!([n.0, n.1]);
        match self {
            Op::AddNode(n) => json!({"k": "add_node", "ns": [nj(n)], "es": []}),
            Op::AddNodes(ns) => json!({"k": "add_nodes", "ns": ns.iter().map(nj).collect::<Vec<_>>(), "es": []}),
            Op::AddEdge(e) => json!({"k": "add_edge", "ns": [], "es": [ej(e)]}),
            Op::AddEdges(es) => json!({"k": "add_edges", "ns": [], "es": es.iter().map(ej).collect::<Vec<_>>()}),
            Op::AddEdgeTuple(u, v) => json!({"k": "add_edge_tuple", "ns": [], "es": [[u, v, NAN_W, 0]]}),
            Op::AddEdgeTuples(ts) => json!({"k": "add_edge_tuples", "ns": [],
                "es": ts.iter().map(|(u, v)| json!([u, v, NAN_W, 0])).collect::<Vec<_>>()}),
            Op::Subgraph(s) => json!({"k": "subgraph", "ns": [], "es": [], "s": s, "w": 0}),
            Op::Reverse => json!({"k": "reverse", "ns": [], "es": [], "s": [], "w": 0}),
            Op::SetWeights(w) => json!({"k": "set_weights", "ns": [], "es": [], "s": [], "w": w}),
            Op::ToSingle => json!({"k": "to_single", "ns": [], "es": [], "s": [], "w": 0}),
        }
    }

    pub fn from_json(v: &Value) -> Op {
        let es: Vec<EdgeArg> = v["es"]
            .as_array()
            .unwrap()
            .iter()
            .map(|e| {
                (
                    e[0].as_i64().unwrap() as i32,
                    e[1].as_i64().unwrap() as i32,
                    e[2].as_i64().unwrap(),
                    e[3].as_i64().unwrap() as i32,
                )
            })
            .collect();
        let ns: Vec<NodeArg> = v["ns"]
            .as_array()
            .unwrap()
            .iter()
            .map(|n| (n[0].as_i64().unwrap() as i32, n[1].as_i64().unwrap() as i32))
            .collect();
        match v["k"].as_str().unwrap() {
            "add_node" => Op::AddNode(ns[0]),
            "add_nodes" => Op::AddNodes(ns),
            "add_edge" => Op::AddEdge(es[0]),
            "add_edges" => Op::AddEdges(es),
            "add_edge_tuple" => Op::AddEdgeTuple(es[0].0, es[0].1),
            "add_edge_tuples" => Op::AddEdgeTuples(es.iter().map(|e| (e.0, e.1)).collect()),
            "subgraph" => Op::Subgraph(v["s"].as_array().unwrap().iter().map(|x| x.as_i64().unwrap() as i32).collect()),
            "reverse" => Op::Reverse,
            "set_weights" => Op::SetWeights(v["w"].as_i64().unwrap()),
            "to_single" => Op::ToSingle,
            k => panic!("unknown op {}", k),
        }
    }
}

/// One stored edge as a trace value [u, v, w, a].
pub fn edge_json(e: &Edge<i32, i32>) -> Value {
    json!([e.u, e.v, f_to_w(e.weight), e.attributes.unwrap_or(0)])
}

/// Canonical order for edge lists whose order is not contractual: stable sort by
/// (u, v), so the per-pair (insertion) order is preserved.
pub fn canon_edges(mut es: Vec<&Arc<Edge<i32, i32>>>) -> Vec<Value> {
    es.sort_by_key(|e| (e.u, e.v));
    es.into_iter().map(|e| edge_json(e)).collect()
}

/// Projection of a real graph onto the abstract state of GraphRules.tla,
/// through the public API only.
pub fn project(g: &G) -> Value {
    let nodes: Vec<Value> = g
        .get_all_nodes()
        .iter()
        .map(|n| json!([n.name, n.attributes.unwrap_or(0)]))
        .collect();
    json!({
        "specs": SpecsJ::from_specs(&g.specs).to_json(),
        "nodes": nodes,
        "edges": canon_edges(g.get_all_edges()),
    })
}

fn sorted<T: Ord>(mut v: Vec<T>) -> Vec<T> {
    v.sort();
    v
}

/// The hook snapshot as a trace value.  Hash-map iteration orders are
/// normalised by sorting on the key; the order inside the *_vec lists and the
/// edge lists is kept.
#[cfg(graphrs_verif)]
pub fn snapshot(g: &G) -> Value {
    let s = g.verif_snapshot();
    let a = |x: &Option<i32>| x.unwrap_or(0);
    let el = |es: &Vec<(i32, i32, f64, Option<i32>)>| {
        es.iter().map(|e| json!([e.0, e.1, f_to_w(e.2), a(&e.3)])).collect::<Vec<_>>()
    };
    let mut edges = s.edges.clone();
    edges.sort_by_key(|(k, _)| *k);
    let mut edges_map = s.edges_map.clone();
    edges_map.sort_by_key(|(k, _)| *k);
    let nm = |m: &Vec<(i32, Vec<i32>)>| {
        let mut m = m.clone();
        m.sort();
        m.into_iter().map(|(k, v)| json!([k, sorted(v)])).collect::<Vec<_>>()
    };
    let im = |m: &Vec<(usize, Vec<usize>)>| {
        let mut m = m.clone();
        m.sort();
        m.into_iter().map(|(k, v)| json!([k, sorted(v)])).collect::<Vec<_>>()
    };
    let av = |m: &Vec<Vec<(usize, f64)>>| {
        m.iter()
            .map(|l| l.iter().map(|(i, w)| json!([i, f_to_w(*w)])).collect::<Vec<_>>())
            .collect::<Vec<_>>()
    };
    let rev = {
        let mut v = s.nodes_map_rev.clone();
        v.sort_by_key(|x| x.0);
        v.into_iter().map(|(i, n, at)| json!([i, n, a(&at)])).collect::<Vec<_>>()
    };
    json!({
        "nodes_map": sorted(s.nodes_map.clone()).into_iter().map(|(n, i)| json!([n, i])).collect::<Vec<_>>(),
        "nodes_map_rev": rev,
        "nodes_vec": s.nodes_vec.iter().map(|(n, at)| json!([n, a(at)])).collect::<Vec<_>>(),
        "edges": edges.iter().map(|(k, es)| json!([k.0, k.1, el(es)])).collect::<Vec<_>>(),
        "edges_map": edges_map.iter().map(|(k, es)| json!([k.0, k.1, el(es)])).collect::<Vec<_>>(),
        "succ": nm(&s.successors),
        "succ_map": im(&s.successors_map),
        "succ_vec": av(&s.successors_vec),
        "pred": nm(&s.predecessors),
        "pred_map": im(&s.predecessors_map),
        "pred_vec": av(&s.predecessors_vec),
    })
}

#[cfg(not(graphrs_verif))]
pub fn snapshot(_g: &G) -> Value {
    json!([])
}

/// Builds a graph by replaying operations on a fresh graph.
pub fn build(specs: SpecsJ, ops: &[Op]) -> G {
    let mut g = G::new(specs.to_specs());
    for op in ops {
        op.apply(&mut g);
    }
    g
}
