//! GraphML: round trips over awkward names / weights (C14) and reading of
//! token-generated and corrupted documents (C19).

use crate::algo::guarded;
use crate::model::*;
use crate::mutgen::Emitter;
use crate::watchdog::Pool;
use graphrs::readwrite::graphml;
use graphrs::{Edge, Graph, Node};
use rand::prelude::*;
use rand_chacha::ChaCha8Rng;
use serde_json::{json, Value};
use std::io::Write;
use std::sync::Arc;

type GS = Graph<String, ()>;

/// Names that XML must escape or could mangle (no control characters: XML 1.0 cannot carry them).
pub fn name_table() -> Vec<String> {
    let mut v: Vec<String> = vec![
        "a", "b", "n1", "", " ", "  two  spaces  ", " lead", "trail ", "<", ">", "&", "\"", "'", "<&>\"'", "&amp;", "&lt;b&gt;",
        "a<b", "x=\"y\"", "]]>", "<!--c-->", "<?pi?>", "é", "ß", "日本語", "Ωmega", "e\u{0301}", "\u{1F600}", "𝔘𝔫𝔦", "a/b", "a\\b", "%20", "#1",
        "0", "-1", "1e5", "NaN", "inf", "weight", "node", "\u{00A0}nbsp", "\u{2028}ls", "tab\u{2003}em",
    ]
    .into_iter()
    .map(String::from)
    .collect();
    v.dedup();
    v
}

pub fn weight_table() -> Vec<f64> {
    vec![
        1.0, 2.5, 0.1 + 0.2, 0.0, -0.0, 5e-324, f64::MIN_POSITIVE, 1e308, f64::MAX, f64::MIN, f64::INFINITY, f64::NEG_INFINITY,
        9007199254740993.0, 1.0 / 3.0, 1e-7, 123456789.123456789, -1.5, 1e21, 1e-5, 0.30000000000000004,
    ]
}

fn random_name(rng: &mut ChaCha8Rng) -> String {
    let len = rng.gen_range(0..8);
    (0..len)
        .map(|_| loop {
            let c = match rng.gen_range(0..10) {
                0..=3 => rng.gen_range(0x20u32..0x7f),
                4..=6 => rng.gen_range(0xa0u32..0x3000),
                7 => rng.gen_range(0x3000u32..0xd7ff),
                8 => rng.gen_range(0xe000u32..0xfffd),
                _ => rng.gen_range(0x10000u32..0x2ffff),
            };
            if let Some(ch) = char::from_u32(c) {
                if !ch.is_control() {
                    break ch;
                }
            }
        })
        .collect()
}

fn random_weight(rng: &mut ChaCha8Rng) -> f64 {
    loop {
        let x = f64::from_bits(rng.gen::<u64>());
        if !x.is_nan() {
            return x;
        }
    }
}

struct Tables {
    names: Vec<String>,
    weights: Vec<u64>, // bit patterns
}

impl Tables {
    fn name_id(&mut self, s: &str) -> i64 {
        match self.names.iter().position(|x| x == s) {
            Some(i) => i as i64 + 1,
            None => {
                self.names.push(s.to_string());
                self.names.len() as i64
            }
        }
    }
    fn weight_id(&mut self, w: f64) -> i64 {
        if w.is_nan() {
            return NAN_W;
        }
        match self.weights.iter().position(|x| *x == w.to_bits()) {
            Some(i) => i as i64 + 1,
            None => {
                self.weights.push(w.to_bits());
                self.weights.len() as i64
            }
        }
    }
    /// Projection of a string graph onto tokens; undirected pairs normalised by token order.
    fn project(&mut self, g: &GS) -> Value {
        let nodes: Vec<Value> = g.get_all_nodes().iter().map(|n| json!([self.name_id(&n.name), 0])).collect();
        let mut es: Vec<(i64, i64, i64)> = vec![];
        for e in g.get_all_edges() {
            let (mut u, mut v) = (self.name_id(&e.u), self.name_id(&e.v));
            if !g.specs.directed && u > v {
                std::mem::swap(&mut u, &mut v);
            }
            es.push((u, v, self.weight_id(e.weight)));
        }
        es.sort_by_key(|e| (e.0, e.1));
        json!({"specs": SpecsJ::from_specs(&g.specs).to_json(), "nodes": nodes,
               "edges": es.iter().map(|e| json!([e.0, e.1, e.2, 0])).collect::<Vec<_>>()})
    }
}

pub fn roundtrip_events<W: Write>(em: &mut Emitter<W>, n: usize, seed: u64, scratch: &str) {
    let mut rng = ChaCha8Rng::seed_from_u64(seed);
    let table = name_table();
    let wtable = weight_table();
    let kinds = SpecsJ::kinds();
    let all = SpecsJ::all();
    for i in 0..n {
        // the first cases use the table systematically, later ones mix in random names / bit patterns
        // the first sixteen cases are the degenerate ones of every kind: the empty graph, then nodes without edges
        let specs = if i < 16 { kinds[i % kinds.len()] } else if i % 3 == 0 { all[rng.gen_range(0..all.len())] } else { kinds[i % kinds.len()] };
        let specs = SpecsJ { missing: 0, ..specs };
        let k = if i < 8 { 0 } else { rng.gen_range(1..=6) };
        let mut names: Vec<String> = (0..k)
            .map(|j| if i < 200 || rng.gen_bool(0.5) { table[(i * 7 + j * 13 + rng.gen_range(0..3)) % table.len()].clone() } else { random_name(&mut rng) })
            .collect();
        names.sort();
        names.dedup();
        names.shuffle(&mut rng);
        let mut g = GS::new(specs.to_specs());
        for nm in &names {
            g.add_node(Node::from_name(nm.clone()));
        }
        let ne = if i < 16 { 0 } else { rng.gen_range(0..=8) };
        for j in 0..ne {
            let u = names[rng.gen_range(0..names.len())].clone();
            let v = names[rng.gen_range(0..names.len())].clone();
            let w = match rng.gen_range(0..4) {
                0 => f64::NAN,
                1 => wtable[(i + j) % wtable.len()],
                2 => wtable[rng.gen_range(0..wtable.len())],
                _ => random_weight(&mut rng),
            };
            let _ = g.add_edge(Arc::new(Edge { u, v, attributes: None, weight: w }));
        }
        let mut tb = Tables { names: vec![], weights: vec![] };
        let before = tb.project(&g);
        let path = format!("{}/rt_{}.graphml", scratch, i % 4);
        let sp = specs.to_specs();
        let r = guarded(|| {
            let doc = match graphml::write_graphml_string(&g) {
                Ok(d) => d,
                Err(_) => return json!({"res": "WriteError"}),
            };
            let file_ok = graphml::write_graphml_file(&g, &path).is_ok();
            let file_eq = file_ok && std::fs::read_to_string(&path).map(|s| s == doc).unwrap_or(false);
            let from_file = match graphml::read_graphml_file(&path, sp.clone()) {
                Ok(h) => Some(h),
                Err(_) => None,
            };
            match graphml::read_graphml_string(&doc, sp.clone()) {
                Ok(h) => json!({"res": "Ok", "doc_len": doc.len(), "file_equals_string": file_eq,
                    "doc_head": doc.chars().take(300).collect::<String>(),
                    "_h": stash(h), "_hf": from_file.map(stash).unwrap_or(Value::Null)}),
                Err(e) => json!({"res": kind_name(&e.kind), "doc_len": doc.len(), "file_equals_string": file_eq,
                    "doc_head": doc.chars().take(300).collect::<String>()}),
            }
        });
        let mut ev = json!({"parent": 0, "op": {"k": "graphml_rt"}, "post": before, "res": r.get("res").cloned().unwrap_or(json!("Panic")),
            "panic": r.get("panic").cloned().unwrap_or(json!("")), "file_equals_string": r.get("file_equals_string").cloned().unwrap_or(json!(false)),
            "doc_head": r.get("doc_head").cloned().unwrap_or(json!("")), "names": names});
        // re-project the graphs read back with the same token tables
        let after = take_stash(r.get("_h")).map(|h| tb.project(&h));
        let after_file = take_stash(r.get("_hf")).map(|h| tb.project(&h));
        ev["after"] = after.unwrap_or(json!({"specs": specs.to_json(), "nodes": [], "edges": []}));
        ev["after_file"] = after_file.unwrap_or(json!({"specs": specs.to_json(), "nodes": [], "edges": []}));
        em.emit(ev);
    }
}

// The graphs read back are passed out of the `guarded` closure through a side table
// (Graph is neither Clone nor serialisable).
thread_local! {
    static STASH: std::cell::RefCell<Vec<Option<GS>>> = std::cell::RefCell::new(vec![]);
}
fn stash(g: GS) -> Value {
    STASH.with(|s| {
        s.borrow_mut().push(Some(g));
        json!(s.borrow().len() - 1)
    })
}
fn take_stash(v: Option<&Value>) -> Option<GS> {
    let i = v?.as_u64()? as usize;
    STASH.with(|s| s.borrow_mut().get_mut(i).and_then(|x| x.take()))
}

// ---------------------------------------------------------------------------
// C19: documents

fn esc(s: &str) -> String {
    s.replace('&', "&amp;").replace('<', "&lt;").replace('"', "&quot;")
}

/// Name of the node with id 7: every character XML needs escaped, so that the document has to
/// carry it as entities / character references and the reader has to decode them.
pub const SPECIAL_NAME: &str = "a&b<c>\"d'";

fn nm(id: i64) -> String {
    if id == 7 { SPECIAL_NAME.to_string() } else { format!("n{}", id) }
}

/// The attribute text for a node id: name 7 is written with a mixture of predefined entities and
/// character references, the others through `esc`.
fn id_text(id: i64) -> String {
    if id == 7 { "a&amp;b&#60;c&gt;&quot;d&#x27;".to_string() } else { esc(&nm(id)) }
}

/// Renders one abstract token (spec/GraphML.tla) to XML text.
pub fn render_token(tk: &Value) -> String {
    let t = tk["t"].as_str().unwrap();
    match t {
        "G" => match tk["dflt"].as_str().unwrap() {
            "none" => "<graph>".to_string(),
            d => {
                let hints = match tk.get("hints").and_then(|h| h.as_str()).unwrap_or("") {
                    "h_small" => " id=\"G\" parse.nodes=\"2\" parse.edges=\"1\" parse.maxindegree=\"1\" parse.maxoutdegree=\"1\" parse.nodeids=\"canonical\" parse.edgeids=\"free\" parse.order=\"nodesfirst\"",
                    "h_huge" => " id=\"G\" parse.nodes=\"4611686018427387904\" parse.edges=\"4611686018427387904\" parse.maxindegree=\"4611686018427387904\"",
                    "h_big" => " parse.edges=\"1000000000000000\" parse.nodes=\"1000000000000000\" parse.order=\"free\"",
                    "h_word" => " parse.nodes=\"many\" parse.edges=\"-1\" parse.maxindegree=\"99999999999999999999999999\" parse.order=\"\"",
                    _ => "",
                };
                format!("<graph edgedefault=\"{}\"{}>", match d { "other" => "sideways".to_string(), "otheruni" => format!("y{}", "\u{4e2d}".repeat(30)), x => x.to_string() }, hints)
            }
        },
        "/G" => "</graph>".to_string(),
        "N" => {
            let id = tk["id"].as_i64().unwrap();
            let attrs = if id == 0 { String::new() } else { format!(" id=\"{}\"", id_text(id)) };
            if tk["open"].as_bool().unwrap() { format!("<node{}></node>", attrs) } else { format!("<node{}/>", attrs) }
        }
        "E" => {
            let (s, d) = (tk["s"].as_i64().unwrap(), tk["d"].as_i64().unwrap());
            let mut attrs = String::new();
            if s != 0 { attrs += &format!(" source=\"{}\"", id_text(s)); }
            if d != 0 { attrs += &format!(" target=\"{}\"", id_text(d)); }
            if tk["open"].as_bool().unwrap() { format!("<edge{}>", attrs) } else { format!("<edge{}/>", attrs) }
        }
        "/E" => "</edge>".to_string(),
        "D" => {
            let key = match tk["key"].as_str().unwrap() { "weight" => " key=\"weight\"", "alt" => " key=\"d7\"", "other" => " key=\"colour\"", _ => "" };
            let w = tk["w"].as_i64().unwrap_or(1);
            if tk["txt"] == "selfclose" {
                return format!("<data{}/>", key);
            }
            let body = match tk["txt"].as_str().unwrap() {
                "num" => format!("{}", w),
                "pad" => format!(" {} ", w),
                "word" => "heavy".to_string(),
                "empty" => String::new(),
                "exp" => "1e999".to_string(),
                "negzero" => "-0".to_string(),
                "hex" => "0x10".to_string(),
                "plus" => "+5".to_string(),
                "sep" => "1_000".to_string(),
                "nan" => "NaN".to_string(),
                "inf" => "-inf".to_string(),
                "long" => "7".repeat(400),
                "uni" => "\u{0663}\u{FF15}".to_string(),
                "longuni" => format!("x{}", "\u{e9}".repeat(40)),
                // graph elements where the weight text belongs (a reader that tracks open elements sees their end tags only)
                "childnode" => "<node id=\"n2\"></node>".to_string(),
                "childedge" => "<edge source=\"n1\" target=\"n2\"></edge>".to_string(),
                _ => "<v>1</v>".to_string(),
            };
            format!("<data{}>{}</data>", key, body)
        }
        "K" => match tk["form"].as_str().unwrap() {
            "std" => "<key id=\"weight\" for=\"edge\" attr.name=\"weight\" attr.type=\"double\"/>".to_string(),
            "alt" => "<key id=\"d7\" for=\"edge\" attr.name=\"weight\" attr.type=\"double\"/>".to_string(),
            "nofor" => "<key id=\"d7\" attr.name=\"weight\"/>".to_string(),
            "noid" => "<key for=\"edge\" attr.name=\"weight\"/>".to_string(),
            _ => "<key id=\"d9\" for=\"node\" attr.name=\"colour\" attr.type=\"string\"/>".to_string(),
        },
        "X" => "<port name=\"p\"/>".to_string(),
        "T" => "stray text".to_string(),
        "C" => "<!-- comment -->".to_string(),
        "DUP" => format!("<node id=\"{}\" id=\"{}\"/>", nm(tk["id"].as_i64().unwrap_or(1)), nm(2)),
        "ENT" => "<node id=\"&nosuch;\"/>".to_string(),
        "TRUNC" => match tk["at"].as_str().unwrap_or("tag") {
            "edge" => "<edge source=\"n1\" target=\"n2\">".to_string(),
            "data" => "<edge source=\"n1\" target=\"n2\"><data key=\"weight\">1.2".to_string(),
            "dataalt" => "<edge source=\"n1\" target=\"n2\"><data key=\"d7\">".to_string(),
            "dataother" => "<node id=\"n1\"><data key=\"colour\">re".to_string(),
            "comment" => "<!-- unfinished".to_string(),
            "cdata" => "<edge source=\"n1\" target=\"n2\"><data key=\"weight\"><![CDATA[1".to_string(),
            _ => "<node id=\"n1".to_string(),
        },
        "BADEND" => "</node>".to_string(),
        "NU" => "<node id=\"n\u{e9}\u{4e2d}\u{1F600}\"/><edge source=\"n\u{e9}\u{4e2d}\u{1F600}\" target=\"\u{1F600}\"/>".to_string(),
        _ => String::new(),
    }
}

pub fn render_doc(tokens: &[Value]) -> String {
    let mut s = String::from("<graphml xmlns=\"http://graphml.graphdrawing.org/xmlns\">");
    let mut truncated = false;
    for tk in tokens {
        s += &render_token(tk);
        if tk["t"] == "TRUNC" {
            truncated = true;
            break;
        }
    }
    if !truncated {
        s += "</graphml>";
    }
    s
}

/// Reads `doc` with `specs` in this process (the caller is an expendable worker).
pub fn read_call(doc: &str, specs: SpecsJ) -> Value {
    guarded(|| match graphml::read_graphml_string(doc, specs.to_specs()) {
        Ok(g) => {
            // names n<i> are mapped back to i; anything else gets a fresh id from 900
            let mut extra: Vec<String> = vec![];
            let mut id = |s: &str| -> i64 {
                if s == SPECIAL_NAME {
                    return 7;
                }
                if let Some(r) = s.strip_prefix('n') {
                    if let Ok(i) = r.parse::<i64>() {
                        if i > 0 && i < 900 {
                            return i;
                        }
                    }
                }
                match extra.iter().position(|x| x == s) {
                    Some(p) => 900 + p as i64,
                    None => {
                        extra.push(s.to_string());
                        900 + extra.len() as i64 - 1
                    }
                }
            };
            let nodes: Vec<Value> = g.get_all_nodes().iter().map(|n| json!([id(&n.name), 0])).collect();
            let mut es: Vec<(i64, i64, i64)> = g.get_all_edges().iter().map(|e| {
                let (mut u, mut v) = (id(&e.u), id(&e.v));
                if !g.specs.directed && u > v { std::mem::swap(&mut u, &mut v); }
                (u, v, f_to_w(e.weight))
            }).collect();
            es.sort_by_key(|e| (e.0, e.1));
            json!({"e": "Ok", "g": {"specs": SpecsJ::from_specs(&g.specs).to_json(), "nodes": nodes,
                "edges": es.iter().map(|e| json!([e.0, e.1, e.2, 0])).collect::<Vec<_>>()}})
        }
        Err(e) => json!({"e": "Err", "kind": kind_name(&e.kind)}),
    })
}

/// C19 direction 2: token documents generated by TLC.
pub fn doc_events<W: Write>(em: &mut Emitter<W>, input: &str, pool: &mut Pool) {
    use std::io::BufRead;
    let f = std::io::BufReader::new(std::fs::File::open(input).expect("open docs"));
    let specs_pool: Vec<SpecsJ> = {
        let mut v = vec![];
        for multi in [false, true] { for loops in [false, true] { for missing in [0u8, 1] {
            v.push(SpecsJ { directed: true, multi, loops, dedupe: 0, missing, loopfalse: 0 });
        } } }
        v.push(SpecsJ { directed: false, multi: false, loops: false, dedupe: 2, missing: 0, loopfalse: 1 });
        v
    };
    for (i, line) in f.lines().enumerate() {
        let line = line.unwrap();
        if line.trim().is_empty() { continue; }
        let d: Value = serde_json::from_str(&line).expect("doc json");
        let toks = d["toks"].as_array().unwrap();
        let doc = render_doc(toks);
        let specs = specs_pool[i % specs_pool.len()];
        let r = pool.call(&json!({"call": {"kind": "graphml_read", "doc": doc, "specs": specs.to_json()}}), std::time::Duration::from_secs(10));
        let outcome = r["e"].as_str().unwrap_or("Abort").to_string();
        em.emit(json!({"parent": 0, "op": {"k": "graphml_doc"}, "toks": toks, "specs": specs.to_json(), "outcome": outcome,
            "post": r.get("g").cloned().unwrap_or(json!({"specs": specs.to_json(), "nodes": [], "edges": []})),
            "panic": r.get("panic").cloned().unwrap_or(json!("")), "doc": doc}));
    }
}

/// C19 direction 1: single-point corruptions of well-formed documents.  Only the
/// outcome class is logged (plus the graph when Ok).
pub fn corruption_events<W: Write>(em: &mut Emitter<W>, ndocs: usize, stride: usize, seed: u64, pool: &mut Pool) {
    let mut rng = ChaCha8Rng::seed_from_u64(seed);
    let table = name_table();
    for di in 0..ndocs {
        let specs = SpecsJ::kinds()[di % 8];
        let mut g = GS::new(specs.to_specs());
        let k = rng.gen_range(1..=4);
        let names: Vec<String> = (0..k).map(|j| table[(di * 5 + j * 3) % table.len()].clone()).collect();
        for nmm in &names { g.add_node(Node::from_name(nmm.clone())); }
        for _ in 0..rng.gen_range(0..=5) {
            let u = names[rng.gen_range(0..names.len())].clone();
            let v = names[rng.gen_range(0..names.len())].clone();
            let w = if rng.gen_bool(0.5) { f64::NAN } else { rng.gen_range(1..9) as f64 / 2.0 };
            let _ = g.add_edge(Arc::new(Edge { u, v, attributes: None, weight: w }));
        }
        let doc = match graphml::write_graphml_string(&g) { Ok(d) => d, Err(_) => continue };
        let bytes = doc.as_bytes();
        let (mut ok, mut err, mut bad) = (0u64, 0u64, 0u64);
        let mut first_bad = json!({});
        let mut variants = 0u64;
        let mut pos = di % stride;
        while pos < bytes.len() {
            for kind in 0..4 {
                let mut b: Vec<u8> = bytes.to_vec();
                match kind {
                    0 => { b.remove(pos); }
                    1 => { let c = b[pos]; b.insert(pos, c); }
                    2 => { b.truncate(pos); }
                    _ => { b[pos] ^= 1 << (pos % 7); }
                }
                let s = match String::from_utf8(b) { Ok(s) => s, Err(_) => continue };
                variants += 1;
                let r = pool.call(&json!({"call": {"kind": "graphml_read", "doc": s, "specs": specs.to_json()}}), std::time::Duration::from_secs(10));
                match r["e"].as_str().unwrap_or("Abort") {
                    "Ok" => ok += 1,
                    "Err" => err += 1,
                    "NotRun" => variants -= 1,
                    o => {
                        bad += 1;
                        if first_bad == json!({}) {
                            first_bad = json!({"outcome": o, "pos": pos, "kind": kind, "doc": s, "panic": r.get("panic").cloned().unwrap_or(json!(""))});
                        }
                    }
                }
            }
            pos += stride;
        }
        em.emit(json!({"parent": 0, "op": {"k": "graphml_corrupt"}, "doc_len": bytes.len(), "variants": variants, "ok": ok, "err": err,
            "bad": bad, "first_bad": first_bad, "specs": specs.to_json()}));
    }
}
