//! f64 -> small rational, so that the specification (which has only integers)
//! can compare exact rational expectations with the library's floats.
//!
//! `rat(x)` returns the reduced fraction p/q with the smallest q <= QMAX such that
//! |x - p/q| <= TOL (absolute).  Two distinct fractions with denominators
//! <= QMAX differ by at least 1/QMAX^2 = 1e-10 > 2*TOL, so when the true value is
//! a fraction with denominator <= QMAX and the float is within TOL of it the
//! reconstruction is exact and unique; a float that is off by more than TOL maps
//! to a different fraction or to the "no small rational" marker [x*1e6 rounded, -1].
//! Encodings: NaN -> [0,0], +inf -> [1,0], -inf -> [-1,0].

use serde_json::{json, Value};

pub const QMAX: i64 = 100_000;
/// absolute tolerance; must stay below 1/(2*QMAX^2) = 5e-11 for the reconstruction to be unique
pub const TOL: f64 = 4.0e-11;

pub fn rat_pq(x: f64) -> (i64, i64) {
    if x.is_nan() {
        return (0, 0);
    }
    if x.is_infinite() {
        return (if x > 0.0 { 1 } else { -1 }, 0);
    }
    let neg = x < 0.0;
    let ax = x.abs();
    if ax > 2.0e9 {
        return (if neg { -2_000_000_000 } else { 2_000_000_000 }, -1);
    }
    let tol = TOL;
    // continued fraction convergents
    let (mut p0, mut q0, mut p1, mut q1) = (0i64, 1i64, 1i64, 0i64);
    let mut r = ax;
    for _ in 0..64 {
        let a = r.floor();
        if a > 4.0e9 {
            break;
        }
        let ai = a as i64;
        let p2 = ai.saturating_mul(p1).saturating_add(p0);
        let q2 = ai.saturating_mul(q1).saturating_add(q0);
        if q2 > QMAX || q2 <= 0 {
            break;
        }
        p0 = p1;
        q0 = q1;
        p1 = p2;
        q1 = q2;
        if (ax - p1 as f64 / q1 as f64).abs() <= tol {
            let g = gcd(p1, q1).max(1);
            let (p, q) = (p1 / g, q1 / g);
            return (if neg { -p } else { p }, q);
        }
        let frac = r - a;
        if frac <= 0.0 {
            break;
        }
        r = 1.0 / frac;
    }
    let scaled = (ax * 1.0e6).round().min(2.0e9) as i64;
    (if neg { -scaled } else { scaled }, -1)
}

pub fn gcd(a: i64, b: i64) -> i64 {
    let (mut a, mut b) = (a.abs(), b.abs());
    while b != 0 {
        let t = a % b;
        a = b;
        b = t;
    }
    a
}

pub fn rat(x: f64) -> Value {
    let (p, q) = rat_pq(x);
    json!([p, q])
}

#[cfg(test)]
mod tests {
    use super::*;
    #[test]
    fn basics() {
        assert_eq!(rat_pq(0.0), (0, 1));
        assert_eq!(rat_pq(0.5), (1, 2));
        assert_eq!(rat_pq(-1.0 / 3.0), (-1, 3));
        assert_eq!(rat_pq(7.0), (7, 1));
        assert_eq!(rat_pq(0.1 + 0.2), (3, 10));
        assert_eq!(rat_pq(2.0 / 3.0 + 1e-9).1 != 3, true);
        assert_eq!(rat_pq(std::f64::consts::PI).1, -1);
        assert_eq!(rat_pq(f64::NAN), (0, 0));
    }
}
