//! Mutation traces (C01, C02, C03, C09, C15): forests of operations applied to
//! real graphs, one ndjson event per public call.
//!
//! Event fields:
//!   id      line number (1-based)
//!   parent  id of the event whose post-state this call started from (0 = none)
//!   op      {"k": kind, "ns": [[name, attr]..], "es": [[u,v,w,a]..], ...}
//!   res     "Ok" or the error kind
//!   post    projection of the graph after the call (public API only)
//!   snap    hook snapshot of the private indexes after the call
//!   uniform true when every weight used so far in this history is NaN, or none is
//!   q       (query events) the read-API table
//!   panic   (if a call panicked) the panic message; the event then has no post

use crate::model::*;
use crate::query::query_table;
use rand::prelude::*;
use rand_chacha::ChaCha8Rng;
use serde_json::{json, Value};
use std::io::Write;
use std::panic::{catch_unwind, AssertUnwindSafe};

pub struct Emitter<W: Write> {
    pub out: W,
    pub next_id: u64,
    pub counts: std::collections::BTreeMap<String, u64>,
}

impl<W: Write> Emitter<W> {
    pub fn new(out: W) -> Self {
        Emitter { out, next_id: 1, counts: Default::default() }
    }
    pub fn emit(&mut self, mut ev: Value) -> u64 {
        // the Json module of TLC has no null: an absent field of a child-process reply
        // (a call that hung or aborted) is written as the string "null"
        fn no_nulls(v: &mut Value) {
            match v {
                Value::Null => *v = json!("null"),
                Value::Array(a) => a.iter_mut().for_each(no_nulls),
                Value::Object(o) => o.values_mut().for_each(no_nulls),
                _ => {}
            }
        }
        no_nulls(&mut ev);
        let id = self.next_id;
        self.next_id += 1;
        ev["id"] = json!(id);
        let k = ev["op"]["k"].as_str().unwrap_or("?").to_string();
        *self.counts.entry(k).or_insert(0) += 1;
        serde_json::to_writer(&mut self.out, &ev).unwrap();
        self.out.write_all(b"\n").unwrap();
        id
    }
}

pub fn no_post(specs: SpecsJ) -> Value {
    json!({"specs": specs.to_json(), "nodes": [], "edges": []})
}

pub fn panic_msg(p: Box<dyn std::any::Any + Send>) -> String {
    if let Some(s) = p.downcast_ref::<&str>() {
        s.to_string()
    } else if let Some(s) = p.downcast_ref::<String>() {
        s.clone()
    } else {
        "panic".to_string()
    }
}

fn uniform(ops: &[Op]) -> bool {
    // (some weight was NaN, some weight was real)
    fn see(st: &mut (bool, bool), w: i64) {
        if w == NAN_W {
            st.0 = true
        } else {
            st.1 = true
        }
    }
    let mut st = (false, false);
    for op in ops {
        match op {
            Op::AddEdge(e) => see(&mut st, e.2),
            Op::AddEdges(es) => es.iter().for_each(|e| see(&mut st, e.2)),
            Op::AddEdgeTuple(..) => see(&mut st, NAN_W),
            Op::AddEdgeTuples(ts) => {
                if !ts.is_empty() {
                    see(&mut st, NAN_W)
                }
            }
            Op::SetWeights(w) => {
                // every stored weight becomes w: the history is uniform from here on
                st = (*w == NAN_W, *w != NAN_W);
            }
            _ => {}
        }
    }
    !(st.0 && st.1)
}

pub struct Ctx<'a, W: Write> {
    pub derive: bool,
    pub em: &'a mut Emitter<W>,
    pub specs: SpecsJ,
    pub universe: Vec<i32>, // names asked about in query events
    pub with_snap: bool,
}

impl<'a, W: Write> Ctx<'a, W> {
    pub fn root(&mut self) -> u64 {
        let g = G::new(self.specs.to_specs());
        self.em.emit(json!({"parent": 0, "op": {"k": "new", "ns": [], "es": []}, "res": "Ok",
            "post": project(&g), "has_snap": self.with_snap, "snap": if self.with_snap { snapshot(&g) } else { json!([]) }, "uniform": true}))
    }

    /// Applies `op` after `path` on a fresh graph and emits the event. Returns (id, res).
    pub fn step(&mut self, parent: u64, path: &[Op], op: &Op) -> (u64, &'static str) {
        let specs = self.specs;
        let r = catch_unwind(AssertUnwindSafe(|| {
            let mut g = build(specs, path);
            if op.is_derive() {
                let (res, src_after) = op.apply_derive(&mut g);
                (res, project(&g), snapshot(&g), src_after)
            } else {
                let res = op.apply(&mut g);
                (res, project(&g), snapshot(&g), json!([]))
            }
        }));
        let mut full: Vec<Op> = path.to_vec();
        full.push(op.clone());
        match r {
            Ok((res, post, snap, src_after)) => {
                let id = self.em.emit(json!({"parent": parent, "op": op.to_json(), "res": res, "post": post, "src_after": src_after,
                    "has_snap": self.with_snap, "snap": if self.with_snap { snap } else { json!([]) }, "uniform": uniform(&full)}));
                (id, res)
            }
            Err(p) => {
                let id = self.em.emit(json!({"parent": parent, "op": op.to_json(), "res": "Panic", "panic": panic_msg(p),
                    "post": no_post(specs), "has_snap": false, "snap": [], "uniform": uniform(&full)}));
                (id, "Panic")
            }
        }
    }

    pub fn query(&mut self, parent: u64, path: &[Op]) -> u64 {
        let specs = self.specs;
        let uni = self.universe.clone();
        let r = catch_unwind(AssertUnwindSafe(|| {
            let g = build(specs, path);
            (query_table(&g, &uni), project(&g))
        }));
        match r {
            Ok((q, post)) => self.em.emit(json!({"parent": parent, "op": {"k": "query", "ns": [], "es": []}, "res": "Ok",
                "post": post, "has_snap": false, "snap": [], "uniform": uniform(path), "q": q})),
            Err(p) => self.em.emit(json!({"parent": parent, "op": {"k": "query", "ns": [], "es": []}, "res": "Panic",
                "panic": panic_msg(p), "post": no_post(specs), "has_snap": false, "snap": [], "uniform": uniform(path)})),
        }
    }
}

/// Single operations over `k` names used by the exhaustive part.
/// add_node(n, a) for a in {1,2}; add_edge(u, v, w, tag) for w in {NaN,1,2}.
pub fn single_ops(k: i32, tag: i32) -> Vec<Op> {
    let mut ops = vec![];
    for n in 1..=k {
        for a in [1, 2] {
            ops.push(Op::AddNode((n, a)));
        }
    }
    for u in 1..=k {
        for v in 1..=k {
            for w in [NAN_W, 1, 2] {
                ops.push(Op::AddEdge((u, v, w, tag)));
            }
        }
    }
    ops
}

/// Exhaustive forest of depth `depth` over `k` names; query events at depth <= qdepth.
pub fn exhaustive<W: Write>(cx: &mut Ctx<W>, k: i32, depth: usize, qdepth: i32) {
    let root = cx.root();
    if qdepth >= 0 {
        cx.query(root, &[]);
    }
    let mut path: Vec<Op> = vec![];
    rec(cx, k, depth, qdepth, root, &mut path);
}

fn rec<W: Write>(cx: &mut Ctx<W>, k: i32, depth: usize, qdepth: i32, parent: u64, path: &mut Vec<Op>) {
    if path.len() >= depth {
        return;
    }
    let tag = path.len() as i32 + 1;
    for op in single_ops(k, tag) {
        let (id, res) = cx.step(parent, path, &op);
        if res == "Panic" {
            continue;
        }
        path.push(op);
        if (path.len() as i32) <= qdepth {
            cx.query(id, path);
        }
        rec(cx, k, depth, qdepth, id, path);
        path.pop();
    }
}

pub fn random_edge(rng: &mut ChaCha8Rng, k: i32, weights: &[i64], tag: i32) -> EdgeArg {
    (rng.gen_range(1..=k), rng.gen_range(1..=k), *weights.choose(rng).unwrap(), tag)
}

pub fn random_op(rng: &mut ChaCha8Rng, k: i32, weights: &[i64], tag: i32) -> Op {
    match rng.gen_range(0..100) {
        0..=14 => Op::AddNode((rng.gen_range(1..=k), rng.gen_range(0..=2))),
        15..=19 => Op::AddNodes((0..rng.gen_range(0..=3)).map(|_| (rng.gen_range(1..=k), rng.gen_range(0..=2))).collect()),
        20..=69 => Op::AddEdge(random_edge(rng, k, weights, tag)),
        70..=84 => Op::AddEdges((0..rng.gen_range(0..=4)).map(|_| random_edge(rng, k, weights, tag)).collect()),
        85..=92 => Op::AddEdgeTuple(rng.gen_range(1..=k), rng.gen_range(1..=k)),
        _ => Op::AddEdgeTuples((0..rng.gen_range(0..=4)).map(|_| (rng.gen_range(1..=k), rng.gen_range(1..=k))).collect()),
    }
}

/// Random linear histories; `wmode` 0: mixed NaN/real, 1: all real, 2: all NaN, 3: all real incl. 0 and a negative weight.
pub fn random_histories<W: Write>(cx: &mut Ctx<W>, rng: &mut ChaCha8Rng, n: usize, k: i32, maxlen: usize, nqueries: usize) {
    for _ in 0..n {
        let wmode = rng.gen_range(0..4);
        let weights: Vec<i64> = match wmode {
            0 => vec![NAN_W, 1, 2, 3],
            1 => vec![1, 2, 3, 5],
            // real weights that are easy to mistreat: zero and a negative one (no negative weight when
            // derived graphs are recorded: to_single_edges adds weights up, and a sum of -1 would collide
            // with the trace encoding of NaN)
            3 => if cx.derive { vec![0, 1, 4, 6] } else { vec![0, -2, 1, 4] },
            _ => vec![NAN_W],
        };
        let len = rng.gen_range(3..=maxlen);
        let mut path: Vec<Op> = vec![];
        let mut parent;
        if rng.gen_bool(0.25) {
            // start from new_from_nodes_and_edges instead of an empty graph
            let ns: Vec<NodeArg> = (0..rng.gen_range(0..=3)).map(|_| (rng.gen_range(1..=k), rng.gen_range(0..=2))).collect();
            let es: Vec<EdgeArg> = (0..rng.gen_range(0..=4)).map(|j| random_edge(rng, k, &weights, j + 1)).collect();
            let (id, res) = new_from(cx, &ns, &es);
            if res != "Ok" {
                continue;
            }
            parent = id;
            path.push(Op::AddNodes(ns));
            path.push(Op::AddEdges(es));
        } else {
            parent = cx.root();
        }
        let qpoints: Vec<usize> = (0..nqueries).map(|_| rng.gen_range(1..=len)).collect();
        for i in 0..len {
            let mut op = random_op(rng, k, &weights, (i % 7) as i32 + 1);
            if wmode == 1 || wmode == 3 {
                // keep the history uniformly weighted: tuples are unweighted edges
                op = match op {
                    Op::AddEdgeTuple(u, v) => Op::AddEdge((u, v, weights[i % weights.len()], 0)),
                    Op::AddEdgeTuples(ts) => Op::AddEdges(ts.into_iter().map(|(u, v)| (u, v, weights[i % weights.len()], 0)).collect()),
                    o => o,
                };
            }
            let (id, res) = cx.step(parent, &path, &op);
            if res == "Panic" {
                break;
            }
            path.push(op);
            parent = id;
            if nqueries > 0 && (qpoints.contains(&(i + 1)) || i + 1 == len) {
                cx.query(parent, &path);
            }
            if cx.derive && (i + 1 == len || qpoints.contains(&(i + 1))) {
                // a few derive operations from this state, each result queried
                let names: Vec<i32> = (1..=k).chain(std::iter::once(99)).collect();
                let mut sub: Vec<i32> = names.iter().copied().filter(|_| rng.gen_bool(0.6)).collect();
                // the request is a list: any order, and a name may be repeated; a short one beside the long one
                if rng.gen_bool(0.5) {
                    sub.shuffle(rng);
                }
                let mut small: Vec<i32> = names.choose_multiple(rng, 2).copied().collect();
                if rng.gen_bool(0.3) {
                    small.push(small[0]);
                }
                for op in [Op::Subgraph(sub), Op::Subgraph(small), Op::Reverse, Op::SetWeights(if rng.gen_bool(0.5) { 7 } else { NAN_W }), Op::ToSingle] {
                    let (id, res) = cx.step(parent, &path, &op);
                    if res == "Ok" {
                        let mut p2 = path.clone();
                        p2.push(op);
                        cx.query(id, &p2);
                    }
                }
            }
        }
    }
}

/// new_from_nodes_and_edges as a root event.
pub fn new_from<W: Write>(cx: &mut Ctx<W>, ns: &[NodeArg], es: &[EdgeArg]) -> (u64, &'static str) {
    let specs = cx.specs;
    let r = catch_unwind(AssertUnwindSafe(|| {
        match G::new_from_nodes_and_edges(ns.iter().map(|n| mk_node(*n)).collect(), es.iter().map(|e| mk_edge(*e)).collect(), specs.to_specs()) {
            Ok(g) => ("Ok", project(&g), snapshot(&g)),
            Err(e) => (kind_name(&e.kind), no_post(specs), json!([])),
        }
    }));
    let opj = json!({"k": "new_from", "specs": specs.to_json(),
        "ns": ns.iter().map(|n| json!([n.0, n.1])).collect::<Vec<_>>(),
        "es": es.iter().map(|e| json!([e.0, e.1, e.2, e.3])).collect::<Vec<_>>()});
    let ops = vec![Op::AddEdges(es.to_vec())];
    match r {
        Ok((res, post, snap)) => {
            let id = cx.em.emit(json!({"parent": 0, "op": opj, "res": res, "post": post,
                "has_snap": cx.with_snap && res == "Ok", "snap": if cx.with_snap && res == "Ok" { snap } else { json!([]) }, "uniform": uniform(&ops)}));
            (id, res)
        }
        Err(p) => (cx.em.emit(json!({"parent": 0, "op": opj, "res": "Panic", "panic": panic_msg(p), "post": no_post(specs), "has_snap": false,
                "snap": [], "uniform": uniform(&ops)})), "Panic"),
    }
}

/// Derive events (C15) from the state reached by `path`: every subset of the name universe
/// (+ one absent name) as get_subgraph argument, reverse, set_all_edge_weights, to_single_edges;
/// each derived graph is then asked the full query table and snapshotted.
pub fn derive_all<W: Write>(cx: &mut Ctx<W>, parent: u64, path: &[Op], k: i32, query: bool) {
    let mut ops = vec![Op::Reverse, Op::SetWeights(NAN_W), Op::SetWeights(7), Op::ToSingle];
    let uni: Vec<i32> = (1..=k).chain(std::iter::once(99)).collect();
    for m in 0..(1u32 << uni.len()) {
        ops.push(Op::Subgraph(uni.iter().enumerate().filter(|(i, _)| m >> i & 1 == 1).map(|(_, x)| *x).collect()));
    }
    for op in ops {
        let (id, res) = cx.step(parent, path, &op);
        if res == "Ok" && query {
            let mut p2 = path.to_vec();
            p2.push(op);
            cx.query(id, &p2);
        }
    }
}

/// Exhaustive forest with derive events from every state up to `depth`.
pub fn exhaustive_derive<W: Write>(cx: &mut Ctx<W>, k: i32, depth: usize, qdepth: i32) {
    let root = cx.root();
    derive_all(cx, root, &[], k, qdepth >= 0);
    let mut path: Vec<Op> = vec![];
    rec_derive(cx, k, depth, qdepth, root, &mut path);
}

fn rec_derive<W: Write>(cx: &mut Ctx<W>, k: i32, depth: usize, qdepth: i32, parent: u64, path: &mut Vec<Op>) {
    if path.len() >= depth {
        return;
    }
    let tag = path.len() as i32 + 1;
    for op in single_ops(k, tag) {
        let (id, res) = cx.step(parent, path, &op);
        if res == "Panic" {
            continue;
        }
        path.push(op);
        derive_all(cx, id, path, k, (path.len() as i32) <= qdepth);
        rec_derive(cx, k, depth, qdepth, id, path);
        path.pop();
    }
}
