//! C20: every public algorithm and query on degenerate graphs - outcome classes.
//! One record per (function, argument shape): the set of outcome classes seen over
//! all argument values of that shape ("existing": every name of the graph;
//! "absent": one name that is not in the graph; "none": no name argument).

use crate::algo::guarded;
use crate::model::*;
use graphrs::algorithms::centrality::{betweenness, closeness, degree, eigenvector};
use graphrs::algorithms::shortest_path::dijkstra;
use graphrs::algorithms::{cluster, community::louvain, community::partitions, components};
use graphrs::Error;
use serde_json::{json, Value};
use std::collections::{BTreeMap, BTreeSet, HashSet};

pub const ABSENT: i32 = 77;

fn res<T>(r: Result<T, Error>) -> String {
    match r {
        Ok(_) => "Value".to_string(),
        Err(e) => format!("Err:{}", kind_name(&e.kind)),
    }
}
fn opt<T>(o: Option<T>) -> String {
    match o {
        Some(_) => "Value".to_string(),
        None => "None".to_string(),
    }
}
fn val<T>(_x: T) -> String {
    "Value".to_string()
}

struct Rec {
    m: BTreeMap<(String, String), BTreeSet<String>>,
    first_panic: BTreeMap<(String, String), String>,
}

impl Rec {
    fn call<F: FnOnce() -> String>(&mut self, f: &str, shape: &str, body: F) {
        let r = guarded(|| json!(body()));
        let out = if r.is_string() { r.as_str().unwrap().to_string() } else { "Panic".to_string() };
        if out == "Panic" {
            self.first_panic.entry((f.to_string(), shape.to_string())).or_insert(r["panic"].as_str().unwrap_or("").to_string());
        }
        self.m.entry((f.to_string(), shape.to_string())).or_default().insert(out);
    }
}

pub fn suite_api(g: &G) -> Value {
    let names: Vec<i32> = g.get_all_node_names().into_iter().copied().collect();
    let mut r = Rec { m: BTreeMap::new(), first_panic: BTreeMap::new() };
    let shapes: Vec<(&str, Vec<i32>)> = vec![("existing", names.clone()), ("absent", vec![ABSENT])];
    // ---- no name argument
    r.call("edges_have_weight", "none", || val(g.edges_have_weight()));
    r.call("get_all_edges", "none", || val(g.get_all_edges().len()));
    r.call("get_all_nodes", "none", || val(g.get_all_nodes().len()));
    r.call("number_of_edges", "none", || val(g.number_of_edges()));
    r.call("size", "none", || val(g.size(true) + g.size(false)));
    r.call("get_density", "none", || val(g.get_density()));
    r.call("get_degree_for_all_nodes", "none", || val(g.get_degree_for_all_nodes()));
    r.call("get_in_degree_for_all_nodes", "none", || res(g.get_in_degree_for_all_nodes()));
    r.call("get_out_degree_for_all_nodes", "none", || res(g.get_out_degree_for_all_nodes()));
    r.call("get_weighted_degree_for_all_nodes", "none", || val(g.get_weighted_degree_for_all_nodes()));
    r.call("get_weighted_in_degree_for_all_nodes", "none", || res(g.get_weighted_in_degree_for_all_nodes()));
    r.call("get_weighted_out_degree_for_all_nodes", "none", || res(g.get_weighted_out_degree_for_all_nodes()));
    r.call("get_sparse_adjacency_matrix", "none", || res(g.get_sparse_adjacency_matrix()));
    r.call("reverse", "none", || res(g.reverse()));
    r.call("to_single_edges", "none", || res(g.to_single_edges()));
    r.call("set_all_edge_weights", "none", || val(g.set_all_edge_weights(2.0).number_of_nodes()));
    r.call("degree_centrality", "none", || val(degree::degree_centrality(g)));
    for w in [false, true] {
        for fl in [false, true] {
            r.call("betweenness_centrality", "none", || res(betweenness::betweenness_centrality(g, w, fl)));
            r.call("closeness_centrality", "none", || res(closeness::closeness_centrality(g, w, fl)));
            r.call("average_clustering", "none", || res(cluster::average_clustering(g, w, None, fl)));
        }
        r.call("eigenvector_centrality", "none", || res(eigenvector::eigenvector_centrality(g, w, Some(50), None)));
        r.call("eigenvector_centrality", "none", || res(eigenvector::eigenvector_centrality(g, w, None, Some(1e-3))));
        r.call("clustering", "none", || res(cluster::clustering(g, w, None)));
        r.call("all_pairs", "none", || res(dijkstra::all_pairs(g, w, None, None, false, true)));
        r.call("all_pairs", "none", || res(dijkstra::all_pairs(g, w, None, Some(1.0), true, false)));
        r.call("multi_source", "none", || res(dijkstra::multi_source(g, w, names.clone(), None, None, false, true)));
        r.call("multi_source", "none", || res(dijkstra::multi_source(g, w, vec![], None, None, false, true)));
    }
    r.call("triangles", "none", || res(cluster::triangles(g, None)));
    r.call("generalized_degree", "none", || res(cluster::generalized_degree(g, None)));
    r.call("transitivity", "none", || res(cluster::transitivity(g)));
    r.call("square_clustering", "none", || val(cluster::square_clustering(g, None)));
    r.call("connected_components", "none", || res(components::connected_components(g)));
    r.call("number_of_connected_components", "none", || res(components::number_of_connected_components(g)));
    r.call("weakly_connected_components", "none", || res(components::weakly_connected_components(g)));
    r.call("strongly_connected_components", "none", || res(components::strongly_connected_components(g)));
    for k in 1..=(names.len() + 2) {
        r.call("bfs_equal_size_partitions", "none", || val(components::bfs_equal_size_partitions(g, k)));
    }
    // partitions: singletons, the whole node set, the empty family
    let singles: Vec<HashSet<i32>> = names.iter().map(|n| [*n].into_iter().collect()).collect();
    let whole: Vec<HashSet<i32>> = vec![names.iter().copied().collect()];
    for fam in [singles, whole, vec![]] {
        r.call("is_partition", "none", || val(partitions::is_partition(g, &fam)));
        for w in [false, true] {
            r.call("modularity", "none", || res(partitions::modularity(g, &fam, w, None)));
        }
    }
    r.call("get_subgraph", "none", || val(g.get_subgraph(&names).number_of_nodes() + g.get_subgraph(&[]).number_of_nodes()));
    // ---- one name argument
    for (shape, args) in &shapes {
        for &x in args {
            r.call("has_node", shape, || val(g.has_node(&x)));
            r.call("has_nodes", shape, || val(g.has_nodes(&[x])));
            r.call("get_node", shape, || opt(g.get_node(x)));
            r.call("get_subgraph", shape, || val(g.get_subgraph(&[x]).number_of_nodes()));
            r.call("get_edges_for_node", shape, || res(g.get_edges_for_node(x)));
            r.call("get_edges_for_nodes", shape, || res(g.get_edges_for_nodes(&[x])));
            r.call("get_in_edges_for_node", shape, || res(g.get_in_edges_for_node(x)));
            r.call("get_in_edges_for_nodes", shape, || res(g.get_in_edges_for_nodes(&[x])));
            r.call("get_out_edges_for_node", shape, || res(g.get_out_edges_for_node(x)));
            r.call("get_out_edges_for_nodes", shape, || res(g.get_out_edges_for_nodes(&[x])));
            r.call("get_neighbor_nodes", shape, || res(g.get_neighbor_nodes(x)));
            r.call("get_successor_nodes", shape, || res(g.get_successor_nodes(x)));
            r.call("get_predecessor_nodes", shape, || res(g.get_predecessor_nodes(x)));
            r.call("get_successor_node_names", shape, || res(g.get_successor_node_names(x)));
            r.call("get_predecessor_node_names", shape, || res(g.get_predecessor_node_names(x)));
            r.call("get_node_degree", shape, || opt(g.get_node_degree(x)));
            r.call("get_node_in_degree", shape, || opt(g.get_node_in_degree(x)));
            r.call("get_node_out_degree", shape, || opt(g.get_node_out_degree(x)));
            r.call("get_node_weighted_degree", shape, || opt(g.get_node_weighted_degree(x)));
            r.call("get_node_weighted_in_degree", shape, || opt(g.get_node_weighted_in_degree(x)));
            r.call("get_node_weighted_out_degree", shape, || opt(g.get_node_weighted_out_degree(x)));
            r.call("node_connected_component", shape, || res(components::node_connected_component(g, &x)));
            r.call("triangles", shape, || res(cluster::triangles(g, Some(&[x]))));
            r.call("generalized_degree", shape, || res(cluster::generalized_degree(g, Some(&[x]))));
            for w in [false, true] {
                r.call("clustering", shape, || res(cluster::clustering(g, w, Some(&[x]))));
                r.call("average_clustering", shape, || res(cluster::average_clustering(g, w, Some(&[x]), true)));
                r.call("single_source", shape, || res(dijkstra::single_source(g, w, x, None, None, false, true)));
                if let Some(s) = names.first() {
                    r.call("single_source_target", shape, || res(dijkstra::single_source(g, w, *s, Some(x), None, false, true)));
                }
                r.call("multi_source", shape, || res(dijkstra::multi_source(g, w, vec![x], None, None, false, true)));
                r.call("multi_source_target", shape, || res(dijkstra::multi_source(g, w, names.clone(), Some(x), None, false, true)));
                r.call("all_pairs_target", shape, || res(dijkstra::all_pairs(g, w, Some(x), None, false, true)));
                // the whole option grid: every combination takes a different path through the search code
                for cutoff in [None, Some(0.0), Some(1.0), Some(2.0)] {
                    for fo in [false, true] {
                        for wp in [false, true] {
                            r.call("single_source_opts", shape, || res(dijkstra::single_source(g, w, x, None, cutoff, fo, wp)));
                            r.call("all_pairs_opts", shape, || res(dijkstra::all_pairs(g, w, Some(x), cutoff, fo, wp)));
                            if let Some(s) = names.first() {
                                r.call("single_source_opts", shape, || res(dijkstra::single_source(g, w, *s, Some(x), cutoff, fo, wp)));
                                r.call("multi_source_opts", shape, || res(dijkstra::multi_source(g, w, vec![*s, x], Some(x), cutoff, fo, wp)));
                            }
                        }
                    }
                }
            }
            for &y in args.iter().chain(names.iter().take(1)) {
                r.call("get_edge", shape, || res(g.get_edge(x, y)));
                r.call("get_edges", shape, || res(g.get_edges(x, y)));
            }
            // functions without an error channel: only names that exist
            if *shape == "existing" {
                r.call("breadth_first_search", shape, || val(g.breadth_first_search(&x)));
                r.call("get_successors_or_neighbors", shape, || val(g.get_successors_or_neighbors(x).len()));
                r.call("square_clustering", shape, || val(cluster::square_clustering(g, Some(&[x]))));
                for w in [false, true] {
                    r.call("get_all_shortest_paths_involving", shape, || val(dijkstra::get_all_shortest_paths_involving(g, x, w).len()));
                }
            }
        }
    }
    for i in 0..=(names.len() + 1) {
        r.call("get_node_by_index", "none", || opt(g.get_node_by_index(&i)));
    }
    let recs: Vec<Value> = r
        .m
        .iter()
        .map(|((f, shape), outs)| json!({"f": f, "shape": shape, "outs": outs.iter().collect::<Vec<_>>(),
            "panic": r.first_panic.get(&(f.clone(), shape.clone())).cloned().unwrap_or_default()}))
        .collect();
    json!({"calls": recs})
}

/// Louvain belongs to the table as well; it runs under the watchdog (it may not return).
pub fn louvain_api_calls() -> Vec<Value> {
    let mut v = vec![];
    for w in [false, true] {
        v.push(json!({"weighted": w, "res": [1, 1], "res_default": true, "threshold_e7": -1, "seed": 1}));
        v.push(json!({"weighted": w, "res": [1, 2], "res_default": false, "threshold_e7": 0, "seed": -1}));
    }
    v
}

pub fn res_string_of_louvain(r: &Value) -> String {
    match r["ans"]["e"].as_str().or(r["e"].as_str()).unwrap_or("Abort") {
        "" => "Value".to_string(),
        "Panic" => "Panic".to_string(),
        "Hang" => "Hang".to_string(),
        "Abort" => "Abort".to_string(),
        k => format!("Err:{}", k),
    }
}

#[allow(dead_code)]
pub fn unused(_: &dyn Fn() -> String) {
    let _ = louvain::louvain_communities::<i32, i32>;
}
